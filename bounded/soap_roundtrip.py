"""BOUNDED stand-in for the SOAP packer of C14 (string surgery over ElementTree output, outside the verified subset; never
counted as proved): pack.make_soap_enveloped_saml_thingy followed by soap.parse_soap_enveloped_saml_thingy must return an
element-identical message for a grid of message spellings."""
import itertools
import sys
import warnings

warnings.simplefilter('ignore')


def canon(xml):
    import defusedxml.ElementTree as DET

    def walk(e):
        return (e.tag, tuple(sorted(e.attrib.items())), (e.text or ''), tuple(walk(c) for c in e), (e.tail or '').strip())
    return walk(DET.fromstring(xml))


def messages():
    decls = ['', '<?xml version="1.0" encoding="UTF-8"?>', '<?xml version="1.0" encoding="UTF-8"?>\n',
             "<?xml version='1.0' encoding='UTF-8'?>", "<?xml version='1.0' encoding='UTF-8'?>\n", '<?XML version="1.0"?>\n']
    bodies = ['<samlp:Response xmlns:samlp="urn:oasis:names:tc:SAML:2.0:protocol" ID="a">text</samlp:Response>',
              '<ns0:AuthnRequest xmlns:ns0="urn:oasis:names:tc:SAML:2.0:protocol" ID="a"><ns1:Issuer xmlns:ns1="urn:oasis:names:tc:SAML:2.0:assertion">line1\nline2</ns1:Issuer></ns0:AuthnRequest>',
              '<Response xmlns="urn:oasis:names:tc:SAML:2.0:protocol" ID="a&amp;b">\n  <x xmlns="urn:x">a &lt; b\n\n c</x>\n</Response>',
              u'<samlp:Response xmlns:samlp="urn:oasis:names:tc:SAML:2.0:protocol" ID="\xe5">FuddleMuddle xmlns:ns1 &gt; http://example.org/</samlp:Response>',
              # a message that uses the very namespace (and prefixes) of the placeholder element the packer swaps out
              '<ns0:AuthnRequest xmlns:ns0="urn:oasis:names:tc:SAML:2.0:protocol" ID="a"><ns0:Extensions><ns1:Ext xmlns:ns1="http://example.org/">e</ns1:Ext>'
              '</ns0:Extensions></ns0:AuthnRequest>',
              '<ns1:FuddleMuddle xmlns:ns1="http://example.org/" xmlns:ns2="http://example.org/">x<ns2:y/></ns1:FuddleMuddle>',
              # characters that are special in regular-expression replacement templates and format strings
              '<samlp:Response xmlns:samlp="urn:oasis:names:tc:SAML:2.0:protocol" ID="C:\\temp\\1">CORP\\nancy \\g&lt;0&gt; \\1 %s {0} $1</samlp:Response>']
    for d, b in itertools.product(decls, bodies):
        yield d + b, b


def run(tier, seed):
    from pyvc import front     # noqa
    from saml2_tophat import pack, soap
    violations, n, ok = [], 0, 0
    for msg, body in messages():
        n += 1
        try:
            env = pack.make_soap_enveloped_saml_thingy(msg)
            tags = [canon(body)[0]]
            back = soap.parse_soap_enveloped_saml_thingy(env, tags)
            if not back or canon(back) != canon(body):
                violations.append({'name': 'bounded[soap-roundtrip]', 'what': 'message %r came back as %r' % (msg[:80], (back or b'')[:120])})
            else:
                ok += 1
        except Exception as e:
            violations.append({'name': 'bounded[soap-roundtrip]', 'what': 'message %r raised %r' % (msg[:80], e)})
    return {'name': 'soap_roundtrip', 'label': 'BOUNDED (SOAP packer/unpacker exercised natively; not a proof)',
            'bound': '%d messages: 6 XML-declaration spellings x 7 bodies (prefixes, default namespace, newlines, entities, non-ASCII, look-alike text, backslashes / template characters)' % n,
            'evaluations': n, 'element_identical': ok, 'violations': violations}


if __name__ == '__main__':
    import json, os
    sys.path.insert(0, os.path.dirname(os.path.dirname(os.path.abspath(__file__))))
    r = run('quick', 0)
    print(json.dumps(r, indent=1)[:2500])
