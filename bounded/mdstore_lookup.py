"""BOUNDED stand-in for the C16 lookups that are not verified deductively (InMemoryMetaData.service / certs /
do_entity_descriptor; never counted as proved): federation documents are generated from a small specification (entities
with SP / IdP roles, several endpoints and bindings, key descriptors with use signing / encryption / none, validUntil
past / future / absent, duplicates across two sources), loaded with the real parser into the real stores, and every
lookup is compared with the answer computed directly from the specification."""
import itertools
import sys
import time
import warnings

warnings.simplefilter('ignore')
B_POST = 'urn:oasis:names:tc:SAML:2.0:bindings:HTTP-POST'
B_RED = 'urn:oasis:names:tc:SAML:2.0:bindings:HTTP-Redirect'
B_SOAP = 'urn:oasis:names:tc:SAML:2.0:bindings:SOAP'
CERT = 'MIICsDCCAhmgAwIBAgIJAJrzqSSwmDY9MA0GCSqGSIb3DQEBBQUAMEUxCzAJBgNV'


def spec_entities():
    past = time.strftime('%Y-%m-%dT%H:%M:%SZ', time.gmtime(time.time() - 86400))
    future = time.strftime('%Y-%m-%dT%H:%M:%SZ', time.gmtime(time.time() + 86400))
    ents = []
    for i, (role, vu, uses) in enumerate(itertools.product(['sp', 'idp'], [None, past, future],
                                                             [('signing',), ('encryption',), (None,), ('signing', 'encryption')])):
        eid = 'https://e%d.example.org/%s' % (i, role)
        if role == 'sp':
            eps = [('assertion_consumer_service', B_POST, eid + '/acs/post', 0), ('assertion_consumer_service', B_RED, eid + '/acs/red', 1),
                   ('single_logout_service', B_SOAP, eid + '/slo', None)]
        else:
            eps = [('single_sign_on_service', B_RED, eid + '/sso/red', None), ('single_sign_on_service', B_POST, eid + '/sso/post', None),
                   ('single_logout_service', B_RED, eid + '/slo', None)]
        ents.append({'id': eid, 'role': role, 'valid_until': vu, 'uses': uses, 'eps': eps,
                     'certs': [(u, __import__('base64').b64encode(('certificate-%03d-%s-padding-padding' % (i, (u or 'none'))).encode()).decode()) for u in uses]})
    return ents


def build_xml(ents, aggregate_valid_until=None):
    from saml2_tophat import md, xmldsig as ds
    eds = []
    for e in ents:
        kds = [md.KeyDescriptor(use=u, key_info=ds.KeyInfo(x509_data=[ds.X509Data(x509_certificate=ds.X509Certificate(text=c))]))
               for u, c in e['certs']]
        if e['role'] == 'sp':
            acs = [md.AssertionConsumerService(binding=b, location=l, index=str(ix)) for s, b, l, ix in e['eps'] if s == 'assertion_consumer_service']
            slo = [md.SingleLogoutService(binding=b, location=l) for s, b, l, ix in e['eps'] if s == 'single_logout_service']
            role = md.SPSSODescriptor(protocol_support_enumeration='urn:oasis:names:tc:SAML:2.0:protocol', key_descriptor=kds,
                                      assertion_consumer_service=acs, single_logout_service=slo)
            ed = md.EntityDescriptor(entity_id=e['id'], valid_until=e['valid_until'], spsso_descriptor=[role])
        else:
            sso = [md.SingleSignOnService(binding=b, location=l) for s, b, l, ix in e['eps'] if s == 'single_sign_on_service']
            slo = [md.SingleLogoutService(binding=b, location=l) for s, b, l, ix in e['eps'] if s == 'single_logout_service']
            role = md.IDPSSODescriptor(protocol_support_enumeration='urn:oasis:names:tc:SAML:2.0:protocol', key_descriptor=kds,
                                       single_sign_on_service=sso, single_logout_service=slo)
            ed = md.EntityDescriptor(entity_id=e['id'], valid_until=e['valid_until'], idpsso_descriptor=[role])
        eds.append(ed)
    return md.EntitiesDescriptor(entity_descriptor=eds, valid_until=aggregate_valid_until).to_string()


def run(tier, seed):
    from pyvc import front     # noqa
    from saml2_tophat import mdstore
    from saml2_tophat.s_utils import UnknownSystemEntity, UnsupportedBinding
    ents = spec_entities()
    half = len(ents) // 2
    # two sources; the second repeats one entity of the first (with other endpoints) -- the first source must win
    dup = dict(ents[0], eps=[(s, b, l + '/DUP', ix) for s, b, l, ix in ents[0]['eps']])
    sources = [ents[:half], ents[half:] + [dup]]
    store = object.__new__(mdstore.MetadataStore)
    store.metadata = {}
    for i, src in enumerate(sources):
        # the second aggregate carries a validUntil of its own that is still in the future: an entity inside it whose OWN
        # validUntil has passed is expired all the same
        future = time.strftime('%Y-%m-%dT%H:%M:%SZ', time.gmtime(time.time() + 86400))
        imm = mdstore.InMemoryMetaData(None, build_xml(src, aggregate_valid_until=future if i == 1 else None))
        imm.to_old = []
        imm.load()
        store.metadata['src%d' % i] = imm
    now = time.strftime('%Y-%m-%dT%H:%M:%SZ', time.gmtime())
    violations, n, distinct = [], 0, set()

    def live(e):
        return e['valid_until'] is None or e['valid_until'] > now
    for e in ents:
        for svc, typ in (('assertion_consumer_service', 'spsso_descriptor'), ('single_sign_on_service', 'idpsso_descriptor'),
                         ('single_logout_service', 'spsso_descriptor' if e['role'] == 'sp' else 'idpsso_descriptor')):
            for b in (B_POST, B_RED, B_SOAP):
                n += 1
                want = sorted(l for s, bb, l, ix in e['eps'] if s == svc and bb == b) if live(e) else None
                role_ok = (typ == 'spsso_descriptor') == (e['role'] == 'sp')
                try:
                    got = sorted(x['location'] for x in store.service(e['id'], typ, svc, b))
                    outcome = 'found'
                except UnknownSystemEntity:
                    got, outcome = None, 'unknown'
                except UnsupportedBinding:
                    got, outcome = [], 'unsupported'
                distinct.add((e['id'], svc, b, outcome))
                if not live(e):
                    if outcome != 'unknown':
                        violations.append({'name': 'bounded[mdstore-lookup]', 'what': 'expired entity %s served: %r' % (e['id'], got)})
                elif not role_ok or not want:
                    if outcome == 'found':
                        violations.append({'name': 'bounded[mdstore-lookup]', 'what': '%s %s %s: got %r, expected nothing' % (e['id'], svc, b, got)})
                    if outcome == 'unknown' and role_ok:
                        # C16: a known entity that lacks the binding is not an unknown entity
                        violations.append({'name': 'bounded[mdstore-lookup]', 'what': '%s is declared (without %s for %s) but was reported as an unknown entity'
                                           % (e['id'], b.rsplit(':', 1)[-1], svc)})
                elif got != want:
                    violations.append({'name': 'bounded[mdstore-lookup]', 'what': '%s %s %s: got %r, expected %r' % (e['id'], svc, b, got, want)})
        for use in ('signing', 'encryption'):
            n += 1
            want = sorted(c for u, c in e['certs'] if u in (use, None)) if live(e) else None
            try:
                got = sorted(store.certs(e['id'], 'any', use))
            except KeyError:
                got = None
            distinct.add((e['id'], 'certs', use, got is not None))
            if want is None:
                if got:
                    violations.append({'name': 'bounded[mdstore-lookup]', 'what': 'certs of expired entity %s served' % e['id']})
            elif [g.replace('\n', '') for g in (got or [])] != want:
                violations.append({'name': 'bounded[mdstore-lookup]', 'what': '%s certs(%s): got %r, expected %r' % (e['id'], use, got, want)})
    # an entity nobody declares
    n += 1
    try:
        store.service('https://nobody.example.org', 'spsso_descriptor', 'assertion_consumer_service', B_POST)
        violations.append({'name': 'bounded[mdstore-lookup]', 'what': 'lookup of an undeclared entity returned endpoints'})
    except UnknownSystemEntity:
        pass
    return {'name': 'mdstore_lookup', 'label': 'BOUNDED (metadata lookups compared with the generating specification; not a proof)',
            'bound': '%d entities (2 roles x validUntil none/past/future x 4 key-use layouts) in 2 sources with one duplicate; '
                     '3 services x 3 bindings + 2 key uses per entity' % len(ents),
            'evaluations': n, 'distinct_outcomes': len(distinct), 'violations': violations}


if __name__ == '__main__':
    import json, os
    sys.path.insert(0, os.path.dirname(os.path.dirname(os.path.abspath(__file__))))
    r = run('quick', 0)
    print(json.dumps({k: v for k, v in r.items() if k != 'violations'}, indent=1))
    for v in r['violations'][:12]:
        print(v)
    print(len(r['violations']), 'violations')
