"""BOUNDED stand-in for C13 on the classes that are not verified deductively (never counted as proved): for EVERY schema
class a valid instance is generated (must be accepted) and each declared constraint is violated in isolation -- required
attribute removed / emptied, checked simple type given a non-conforming value, list child below min / above max --
(must be rejected with NotValid / MustValueError), at the root and nested under a parent that has the class as child."""
import sys
import warnings

warnings.simplefilter('ignore')
GOOD = {'dateTime': '2020-01-01T00:00:00Z', 'datetime': '2020-01-01T00:00:00Z', 'boolean': 'true', 'integer': '5',
        'nonNegativeInteger': '5', 'positiveInteger': '5', 'PositiveInteger': '5', 'unsignedShort': '5', 'unsignedByte': '5',
        'duration': 'P1D', 'anyURI': 'urn:x:y', 'ID': 'id1', 'NCName': 'n1', 'base64Binary': 'AAAA', 'QName': 'a:b'}
BAD = {'dateTime': 'yesterday', 'datetime': 'yesterday', 'boolean': 'maybe', 'integer': 'x1', 'nonNegativeInteger': '-1',
       'positiveInteger': '0', 'PositiveInteger': '0', 'unsignedShort': '70000', 'unsignedByte': '256', 'duration': 'one day'}


def base_type(t):
    return t.split(':')[-1] if isinstance(t, str) else None


def good_value(typ):
    if isinstance(typ, type):
        vt = getattr(typ, 'c_value_type', None) or {}
        if 'enumeration' in vt:
            return vt['enumeration'][0]
        if vt.get('base') == 'list':
            return GOOD.get(base_type(vt.get('member', 'string')), 'v')
        return GOOD.get(base_type(vt.get('base', 'string')), 'v')
    return GOOD.get(base_type(typ), 'v')


def make_valid(cls, depth=2):
    kw = {}
    for key, (name, typ, required) in cls.c_attributes.items():
        kw[name] = good_value(typ)
    inst = cls(**kw)
    vt = getattr(cls, 'c_value_type', None)
    if vt:
        if 'enumeration' in vt:
            inst.text = vt['enumeration'][0]
        else:
            inst.text = GOOD.get(base_type(vt.get('member') or vt.get('base', 'string')), 'v')
    for key, (name, spec) in cls.c_children.items():
        card = cls.c_cardinality.get(name) or {}
        member = spec[0] if isinstance(spec, list) else spec
        if not isinstance(member, type):
            continue
        need = card.get('min') or 0
        if need and depth > 0:
            kids = [make_valid(member, depth - 1) for _ in range(need)]
            setattr(inst, name, kids if isinstance(spec, list) else kids[0])
    return inst


def run(tier, seed):
    from pyvc import front, tables     # noqa
    from saml2_tophat import validate
    classes = [c for c in tables.schema_classes() if c.__name__ not in ('AttributeValueBase', 'AttributeValue')]
    violations, n, distinct = [], 0, 0
    rejects = (validate.NotValid, validate.MustValueError, validate.OutsideCardinality)

    def accepted(inst):
        try:
            validate.valid_instance(inst)
            return True, None
        except rejects as e:
            return False, e
    for cls in classes:
        q = '%s.%s' % (cls.__module__, cls.__name__)
        try:
            base = make_valid(cls)
        except Exception as e:
            continue
        n += 1
        try:
            ok, why = accepted(base)
        except Exception as e:
            violations.append({'name': 'bounded[schema-validation:%s]' % q, 'what': 'valid instance raised %r' % (e,)})
            continue
        if not ok:
            # the generator could not build a valid instance of this class (deeper structural rules): not a finding
            continue
        distinct += 1
        for key, (name, typ, required) in cls.c_attributes.items():
            if required:
                for empty in (None, ''):
                    n += 1
                    inst = make_valid(cls)
                    setattr(inst, name, empty)
                    try:
                        ok, _ = accepted(inst)
                    except Exception as e:
                        ok = False
                    if ok:
                        violations.append({'name': 'bounded[schema-validation:%s]' % q,
                                           'what': 'accepted with required attribute %s = %r' % (name, empty)})
            bt = base_type(typ) if isinstance(typ, str) else base_type((getattr(typ, 'c_value_type', None) or {}).get('base', ''))
            if bt in BAD:
                n += 1
                inst = make_valid(cls)
                setattr(inst, name, BAD[bt])
                try:
                    ok, _ = accepted(inst)
                except Exception:
                    ok = False
                if ok:
                    violations.append({'name': 'bounded[schema-validation:%s]' % q,
                                       'what': 'accepted with %s attribute %s = %r' % (bt, name, BAD[bt])})
        for key, (name, spec) in cls.c_children.items():
            card = cls.c_cardinality.get(name)
            member = spec[0] if isinstance(spec, list) else spec
            if not card or not isinstance(member, type) or not isinstance(spec, list):
                continue
            for label, count in (('below min', (card.get('min') or 0) - 1), ('above max', (card.get('max') or 10 ** 9) + 1)):
                if count < 0 or count > 6:
                    continue
                n += 1
                inst = make_valid(cls)
                try:
                    setattr(inst, name, [make_valid(member, 1) for _ in range(count)])
                    ok, _ = accepted(inst)
                except Exception:
                    ok = False
                if ok:
                    violations.append({'name': 'bounded[schema-validation:%s]' % q,
                                       'what': 'accepted with %d x %s (%s %r)' % (count, name, label, card)})
    # ---- the same violations NESTED under a parent that declares the class as a child: an invalid child makes the parent invalid
    parent_of = {}
    for pc in classes:
        for key, (name, spec) in pc.c_children.items():
            member = spec[0] if isinstance(spec, list) else spec
            if isinstance(member, type) and member is not pc and member not in parent_of:
                parent_of[member] = (pc, name, isinstance(spec, list))
    nested = 0
    for cls, (pc, pname, is_list) in sorted(parent_of.items(), key=lambda kv: '%s.%s' % (kv[0].__module__, kv[0].__name__)):
        q = '%s.%s' % (cls.__module__, cls.__name__)
        req = [name for key, (name, typ, required) in cls.c_attributes.items() if required]
        need_child = [name for key, (name, spec) in cls.c_children.items() if (cls.c_cardinality.get(name) or {}).get('min')]
        if not req and not need_child:
            continue
        try:
            parent = make_valid(pc)
            good_child = make_valid(cls)
            setattr(parent, pname, [good_child] if is_list else good_child)
            ok, _ = accepted(parent)
        except Exception:
            continue
        if not ok:
            continue            # no valid parent could be generated: nothing to compare with
        variants = [('completely empty', cls())]
        if req:
            v = make_valid(cls)
            setattr(v, req[0], None)
            variants.append(('without required attribute %s' % req[0], v))
        for label, child in variants:
            n += 1
            nested += 1
            parent = make_valid(pc)
            setattr(parent, pname, [child] if is_list else child)
            try:
                ok, _ = accepted(parent)
            except Exception:
                ok = False
            if ok:
                violations.append({'name': 'bounded[schema-validation:%s]' % q,
                                   'what': 'accepted nested under %s.%s: child %s' % (pc.__name__, pname, label)})
    return {'name': 'schema_validation', 'label': 'BOUNDED (every class: valid instance accepted, each declared constraint violated in isolation rejected)',
            'bound': '%d schema classes, one violation at a time, children to depth 2; %d nested invalid-child cases' % (len(classes), nested),
            'evaluations': n, 'classes_with_valid_instance': distinct, 'violations': violations}


if __name__ == '__main__':
    import json, os
    sys.path.insert(0, os.path.dirname(os.path.dirname(os.path.abspath(__file__))))
    r = run('quick', 0)
    print(json.dumps({k: v for k, v in r.items() if k != 'violations'}, indent=1))
    for v in r['violations'][:20]:
        print(v)
    print(len(r['violations']), 'violations')
