"""BOUNDED stand-in for the HTTP-POST form builder of C14, used when pack.http_form_post_message is restructured beyond
the verified subset (never counted as proved): the form is built by the real function for a grid of messages x RelayStates
(markup, quotes, entity look-alikes, non-ASCII), read back with an independent HTML parser, and must contain exactly the
hidden fields SAMLRequest|SAMLResponse (base64 of the message) and RelayState (the value as given) -- nothing injected."""
import base64
import warnings
from html.parser import HTMLParser

warnings.simplefilter('ignore')

RELAY = ['plain', 'a b&c=d', '"><input name="SAMLResponse" value="evil', "'><script>alert(1)</script>", '&amp;', '&amp;amp;', '&#x3a;&#58;',
         '&lt;b&gt;', 'x" onmouseover="y', u'r\xe4ksm\xf6rg\xe5s \u2603', '100%', '\\n\\1', '', None]
MSGS = ['<samlp:Response xmlns:samlp="urn:oasis:names:tc:SAML:2.0:protocol" ID="a">text</samlp:Response>',
        u'<x a="&quot;&amp;">\xe5 &lt; \u2603</x>']


class Reader(HTMLParser):
    def __init__(self):
        HTMLParser.__init__(self, convert_charrefs=True)
        self.inputs, self.forms, self.scripts = [], [], 0

    def handle_starttag(self, tag, attrs):
        d = dict(attrs)
        if tag == 'input':
            self.inputs.append(d)
        elif tag == 'form':
            self.forms.append(d)
        elif tag == 'script':
            self.scripts += 1


def run(tier, seed):
    from pyvc import front     # noqa
    from saml2_tophat import pack
    violations, n = [], 0
    for typ in ('SAMLRequest', 'SAMLResponse'):
        for msg in MSGS:
            for rs in RELAY:
                n += 1
                try:
                    res = pack.http_form_post_message(msg, 'https://sp.example.org/acs?x=1&y=2', relay_state=rs, typ=typ)
                    html_text = res['data'] if isinstance(res['data'], str) else ''.join(res['data'])
                    rd = Reader()
                    rd.feed(html_text)
                    hidden = [(i.get('name'), i.get('value')) for i in rd.inputs if i.get('type') == 'hidden']
                    want = [(typ, base64.b64encode(msg.encode('utf-8')).decode('ascii'))] + ([('RelayState', rs)] if rs else [])
                    if sorted(hidden, key=str) != sorted(want, key=str):
                        violations.append({'name': 'bounded[form-post]', 'relay_state': rs, 'what': 'hidden fields read back %r, expected %r' % (hidden[:4], want)})
                    elif len(rd.forms) != 1 or rd.forms[0].get('action') != 'https://sp.example.org/acs?x=1&y=2':
                        violations.append({'name': 'bounded[form-post]', 'relay_state': rs, 'what': 'form action read back %r' % (rd.forms,)})
                    elif rd.scripts:
                        violations.append({'name': 'bounded[form-post]', 'relay_state': rs, 'what': 'a script element was injected'})
                except Exception as e:
                    violations.append({'name': 'bounded[form-post]', 'relay_state': rs, 'what': 'raised %r' % (e,)})
    return {'name': 'form_post', 'label': 'BOUNDED (POST form read back with an independent HTML parser; not a proof)',
            'bound': '2 message types x %d messages x %d RelayState values' % (len(MSGS), len(RELAY)), 'evaluations': n, 'violations': violations}
