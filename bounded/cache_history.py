"""BOUNDED stand-in for the parts of C19 that are not verified deductively (Cache.get_identity / entities / subjects and
the file-backed variant; never counted as proved): every operation sequence up to length N over 2 subjects (name
identifiers differing in one field) x 2 sources x expiry {past, future} is run against the in-memory and the
shelve-backed cache and compared with a reference model after every step, under a frozen clock."""
import copy
import itertools
import os
import shutil
import sys
import tempfile
import warnings

warnings.simplefilter('ignore')
NOW = 1600000000


def run(tier, seed):
    from pyvc import front     # noqa
    from saml2_tophat import cache, saml, time_util
    import time as _time
    import calendar as _cal
    real_gmtime = _time.gmtime
    _time.gmtime = lambda *a: real_gmtime(*a) if a else real_gmtime(NOW)
    N = 3 if tier == 'quick' else 4
    subs = [saml.NameID(text='alice', format='urn:f', sp_name_qualifier='sp1'),
            saml.NameID(text='alice', format='urn:f', sp_name_qualifier='sp2')]
    srcs = ['https://idp1', 'https://idp2']
    exps = {'past': NOW - 10, 'future': NOW + 10}
    ops = []
    for s in (0, 1):
        for e in srcs:
            for x in exps:
                ops.append(('set', s, e, x))
            ops.append(('reset', s, e))
        ops.append(('delete', s))
    violations, n, distinct = [], 0, set()
    tmp = tempfile.mkdtemp(prefix='pyvc_cache_', dir=os.path.join(os.path.dirname(os.path.dirname(os.path.abspath(__file__))), 'out')
                           if os.path.isdir(os.path.join(os.path.dirname(os.path.dirname(os.path.abspath(__file__))), 'out')) else None)
    try:
        count = 0
        for seq in itertools.product(ops, repeat=N):
            count += 1
            for backend in ('memory', 'shelve'):
                # the file-backed variant is slower: quick runs it on every 35th sequence (offset by the seed), thorough on every 5th
                if backend == 'shelve' and (count + seed) % (35 if tier == 'quick' else 5):
                    continue
                c = cache.Cache() if backend == 'memory' else cache.Cache(os.path.join(tmp, 'c%d' % count))
                model = {}
                for op in seq:
                    n += 1
                    try:
                        if op[0] == 'set':
                            info = {'ava': {'uid': ['%s-%s-%s' % (op[1], op[2][-1], op[3])]}, 'name_id': subs[op[1]]}
                            c.set(subs[op[1]], op[2], info, exps[op[3]])
                            model.setdefault(op[1], {})[op[2]] = (exps[op[3]], copy.deepcopy(info['ava']))     # independent of what the cache holds
                        elif op[0] == 'reset':
                            c.reset(subs[op[1]], op[2])
                            model.setdefault(op[1], {})[op[2]] = (0, None)
                        else:
                            try:
                                c.delete(subs[op[1]])
                                had = op[1] in model
                                model.pop(op[1], None)
                                if not had:
                                    violations.append({'name': 'bounded[cache-history]', 'what': 'delete of an unknown subject did not fail'})
                            except KeyError:
                                if op[1] in model:
                                    violations.append({'name': 'bounded[cache-history]', 'what': 'delete of a known subject failed'})
                    except Exception as e:
                        violations.append({'name': 'bounded[cache-history]', 'what': '%r raised %r after %r' % (op, e, seq)})
                        break
                    # observe every subject after every step
                    for s in (0, 1):
                        want_ava, want_old = {}, []
                        for e, (ts, ava) in model.get(s, {}).items():
                            if ava and ts and ts >= NOW:
                                for k, v in ava.items():
                                    want_ava.setdefault(k, set()).update(v)
                            else:
                                want_old.append(e)
                        try:
                            got_ava, got_old = c.get_identity(subs[s])
                        except Exception as e:
                            violations.append({'name': 'bounded[cache-history]', 'what': 'get_identity raised %r after %r' % (e, seq)})
                            continue
                        got = {k: set(v) for k, v in got_ava.items()}
                        if got != want_ava or sorted(got_old) != sorted(want_old):
                            violations.append({'name': 'bounded[cache-history]', 'what': '%s after %r: identity %r / stale %r, expected %r / %r'
                                               % (backend, seq, got, sorted(got_old), want_ava, sorted(want_old))})
                        distinct.add((s, repr(sorted(got.items())), repr(sorted(got_old))))
                if backend == 'shelve':
                    try:
                        c._db.close()
                    except Exception:
                        pass
                if len(violations) > 20:
                    break
            if len(violations) > 20:
                break
    finally:
        _time.gmtime = real_gmtime
        shutil.rmtree(tmp, ignore_errors=True)
    return {'name': 'cache_history', 'label': 'BOUNDED (cache operation histories against a reference model; not a proof)',
            'bound': 'operation sequences of length %d over %d operations (2 subjects x 2 sources x expiry past/future, reset, delete); '
                     'all sequences in memory, every %s also shelve-backed' % (N, len(ops), '35th' if tier == 'quick' else '5th'),
            'evaluations': n, 'distinct_observations': len(distinct), 'violations': violations[:20]}


if __name__ == '__main__':
    import json
    sys.path.insert(0, os.path.dirname(os.path.dirname(os.path.abspath(__file__))))
    r = run(sys.argv[1] if len(sys.argv) > 1 else 'quick', 0)
    print(json.dumps({k: v for k, v in r.items() if k != 'violations'}, indent=1))
    for v in r['violations'][:6]:
        print(v)
    print(len(r['violations']), 'violations')
