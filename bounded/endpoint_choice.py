"""BOUNDED stand-in for C09 when Entity.pick_binding / response_args are restructured beyond the verified subset, and for the
metadata lookups their contracts ASSUME (never counted as proved): a real IdP (Server) with inline metadata of two SPs
answers request variants -- consumer URL registered / unregistered / near-miss (case, trailing slash, extra query, fragment,
the other SP's URL), index known / unknown, bindings given / absent, issuer known / unknown -- singly and in histories on the
same IdP object; every answer must be a refusal or a (binding, location) pair that the REQUESTER's own metadata registers for
the relevant service, and no destination may be produced for an issuer absent from metadata."""
import itertools
import logging
import sys
import warnings

warnings.simplefilter('ignore')


def run(tier, seed):
    from pyvc import front     # noqa
    logging.disable(logging.CRITICAL)
    from saml2_tophat import BINDING_HTTP_POST as POST, BINDING_HTTP_REDIRECT as REDIR, BINDING_SOAP as SOAP
    from saml2_tophat import saml, samlp
    from saml2_tophat.config import IdPConfig
    from saml2_tophat.server import Server
    SP1, SP2, UNKNOWN = 'https://sp1.example.com/metadata', 'https://sp2.example.org/metadata', 'https://not-in-metadata.example/sp'
    REG = {SP1: {'acs': [(POST, 'https://sp1.example.com/acs/post'), (REDIR, 'https://sp1.example.com/acs/redirect')],
                 'slo': [(REDIR, 'https://sp1.example.com/slo'), (POST, 'https://sp1.example.com/slo/post')]},
           SP2: {'acs': [(POST, 'https://sp2.example.org/acs/post')], 'slo': [(REDIR, 'https://sp2.example.org/slo')]}}

    def sp_md(eid, acs, slo):
        a = ''.join('<md:AssertionConsumerService Binding="%s" Location="%s" index="%d"/>' % (b, l, i) for i, (b, l) in enumerate(acs))
        s = ''.join('<md:SingleLogoutService Binding="%s" Location="%s"/>' % (b, l) for b, l in slo)
        return ('<md:EntityDescriptor xmlns:md="urn:oasis:names:tc:SAML:2.0:metadata" entityID="%s"><md:SPSSODescriptor '
                'protocolSupportEnumeration="urn:oasis:names:tc:SAML:2.0:protocol">%s%s</md:SPSSODescriptor></md:EntityDescriptor>' % (eid, s, a))

    def new_idp():
        conf = {'entityid': 'https://idp.example.net/idp',
                'service': {'idp': {'endpoints': {'single_sign_on_service': [('https://idp.example.net/sso', REDIR)],
                                                  'single_logout_service': [('https://idp.example.net/slo', REDIR)]}}},
                'xmlsec_binary': sys.executable,      # never run: nothing is signed here
                'metadata': {'inline': [sp_md(e, d['acs'], d['slo']) for e, d in REG.items()]}}
        return Server(config=IdPConfig().load(conf, metadata_construction=False))

    counter = [0]

    def authn(issuer, url=None, index=None, pb=None):
        counter[0] += 1
        return samlp.AuthnRequest(id='id-%d' % counter[0], version='2.0', issue_instant='2026-01-01T00:00:00Z', issuer=saml.Issuer(text=issuer),
                                  assertion_consumer_service_url=url, assertion_consumer_service_index=index, protocol_binding=pb)

    def logout(issuer):
        counter[0] += 1
        return samlp.LogoutRequest(id='id-%d' % counter[0], version='2.0', issue_instant='2026-01-01T00:00:00Z',
                                   issuer=saml.Issuer(text=issuer), name_id=saml.NameID(text='subject-%d' % counter[0]))

    violations, n = [], 0

    def check(idp, label, issuer, kind, req, bindings):
        try:
            r = idp.response_args(req, bindings)
            got = (r['binding'], r['destination'])
        except Exception:
            return None
        allowed = REG.get(issuer, {}).get(kind, [])
        if got not in allowed and not (got[0] == SOAP and got[1] == ''):
            violations.append({'name': 'bounded[endpoint-choice]', 'case': label,
                               'what': 'requester %s was answered at %r; its metadata registers %r' % (issuer, got, allowed)})
        return got

    good = 'https://sp1.example.com/acs/post'
    urls = [None, good, 'https://sp1.example.com/acs/redirect', 'https://evil.example.org/acs', good + '/', good.upper(), 'HTTPS://SP1.EXAMPLE.COM/acs/post',
            good + '?return=https://evil.example.org', good + '#frag', 'https://sp2.example.org/acs/post', good[:-1], good + 'x', ' ' + good]
    idp = new_idp()
    for url, pb, bindings in itertools.product(urls, [None, POST, REDIR], [None, [POST], [REDIR], [POST, REDIR]]):
        n += 1
        check(idp, 'authn url=%r protocol_binding=%r bindings=%r' % (url, pb, bindings), SP1, 'acs', authn(SP1, url, pb=pb), bindings)
    for index in ['0', '1', '2', '7', 'x']:
        n += 1
        check(idp, 'authn index=%r' % index, SP1, 'acs', authn(SP1, index=index), None)
    for issuer in (SP2, UNKNOWN):
        for url in (None, good, 'https://sp2.example.org/acs/post'):
            n += 1
            got = check(idp, 'authn issuer=%s url=%r' % (issuer, url), issuer, 'acs', authn(issuer, url), [POST])
            if issuer == UNKNOWN and got is not None and got[1]:
                violations.append({'name': 'bounded[endpoint-choice]', 'case': 'unknown issuer', 'what': 'a destination %r was produced for a requester '
                                   'absent from metadata' % (got,)})
    # histories on one IdP object: what was resolved for one requester must not leak into the answer to another
    steps = [('logout', SP1, [REDIR]), ('logout', SP2, [REDIR]), ('logout', UNKNOWN, [REDIR]), ('authn', SP1, [POST]), ('authn', SP2, [POST]),
             ('authn', UNKNOWN, [POST]), ('logout', SP2, [POST]), ('logout', SP1, [POST])]
    length = 3 if tier == 'quick' else 4
    for hist in itertools.permutations(range(len(steps)), length):
        idp = new_idp()
        for k in hist:
            kind, issuer, bindings = steps[k]
            n += 1
            req = logout(issuer) if kind == 'logout' else authn(issuer)
            got = check(idp, 'history %r step %s' % ([steps[i][:2] for i in hist], steps[k][:2]), issuer, 'slo' if kind == 'logout' else 'acs', req, bindings)
            if issuer == UNKNOWN and got is not None and got[1]:
                violations.append({'name': 'bounded[endpoint-choice]', 'case': 'history %r' % ([steps[i][:2] for i in hist],),
                                   'what': 'a destination %r was produced for a requester absent from metadata' % (got,)})
        if len(violations) > 20:
            break
    return {'name': 'endpoint_choice', 'label': 'BOUNDED (IdP endpoint choice exercised natively against the requester\'s metadata; not a proof)',
            'bound': '%d consumer-URL spellings x 3 protocol bindings x 4 binding lists, 5 indexes, 2 other issuers x 3 URLs, all histories of length %d '
                     'over %d request kinds on one IdP object' % (len(urls), length, len(steps)),
            'evaluations': n, 'violations': violations[:20]}
