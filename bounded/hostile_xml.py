"""BOUNDED stand-in for C11 (validation of E-DEFUSED, never counted as proved): a catalogue of hostile documents is
pushed through every public parse entry point of the current tree; the post "raise | None | fully harvested object of
the expected root, no file / socket access, no entity expansion" is evaluated at run time."""
import builtins
import socket
import sys
import warnings

warnings.simplefilter('ignore')
CANARY = 'PYVC-CANARY-7f3a'


def catalogue():
    resp = ('<samlp:Response xmlns:samlp="urn:oasis:names:tc:SAML:2.0:protocol" xmlns:saml="urn:oasis:names:tc:SAML:2.0:assertion" '
            'ID="i1" Version="2.0" IssueInstant="2020-01-01T00:00:00Z"><saml:Issuer>%s</saml:Issuer></samlp:Response>')
    docs = {
        'internal-entity': '<?xml version="1.0"?><!DOCTYPE r [<!ENTITY a "%s">]>' % CANARY + resp % '&a;',
        'external-entity-file': '<?xml version="1.0"?><!DOCTYPE r [<!ENTITY a SYSTEM "file:///etc/passwd">]>' + resp % '&a;',
        'external-entity-http': '<?xml version="1.0"?><!DOCTYPE r [<!ENTITY a SYSTEM "http://127.0.0.1:9/x">]>' + resp % '&a;',
        'parameter-entity': '<?xml version="1.0"?><!DOCTYPE r [<!ENTITY % p SYSTEM "http://127.0.0.1:9/p.dtd"> %p;]>' + resp % 'x',
        'billion-laughs': '<?xml version="1.0"?><!DOCTYPE r [<!ENTITY a "aaaaaaaaaa"><!ENTITY b "&a;&a;&a;&a;&a;&a;&a;&a;">'
                          '<!ENTITY c "&b;&b;&b;&b;&b;&b;&b;&b;">]>' + resp % '&c;',
        'external-dtd': '<?xml version="1.0"?><!DOCTYPE r SYSTEM "http://127.0.0.1:9/x.dtd">' + resp % 'x',
        'xinclude': (resp % '<xi:include xmlns:xi="http://www.w3.org/2001/XInclude" href="file:///etc/passwd" parse="text"/>'),
        'stylesheet-pi': '<?xml version="1.0"?><?xml-stylesheet href="http://127.0.0.1:9/x.xsl" type="text/xsl"?>' + resp % 'x',
        'utf16-bom': ('<?xml version="1.0" encoding="UTF-16"?>' + resp % 'x').encode('utf-16'),
        'not-xml': 'this is not xml at all',
        'empty': '',
    }
    good = resp % 'https://idp.example.org'
    cuts = set([1, 5, len(good) // 4, len(good) // 2, good.index('<saml:Issuer') + 3, good.index('</saml:Issuer') + 2,
                len(good) - 3, len(good) - 1])
    cuts |= set(i + 1 for i, ch in enumerate(good[:-1]) if ch == '>')       # every structural boundary
    for cut in sorted(cuts):
        docs['truncated@%d' % cut] = good[:cut]
    docs['well-formed'] = good
    return docs


def envelope_catalogue():
    """malformed ENVELOPES for the SOAP entry points: the complete envelope cut at every structural boundary, a mismatched
    closing tag, junk / a second root element after the envelope"""
    good = ('<soap:Envelope xmlns:soap="http://schemas.xmlsoap.org/soap/envelope/"><soap:Header/><soap:Body>'
            '<samlp:Response xmlns:samlp="urn:oasis:names:tc:SAML:2.0:protocol" xmlns:saml="urn:oasis:names:tc:SAML:2.0:assertion" '
            'ID="i1" Version="2.0" IssueInstant="2020-01-01T00:00:00Z"><saml:Issuer>https://idp.example.org</saml:Issuer>'
            '</samlp:Response></soap:Body></soap:Envelope>')
    docs = {}
    for i, ch in enumerate(good[:-1]):
        if ch == '>':
            docs['envelope-truncated@%d' % (i + 1)] = good[:i + 1]
    docs['envelope-mismatched-close'] = good.replace('</soap:Envelope>', '</soap:Envelop>')
    docs['envelope-junk-after'] = good + 'junk'
    docs['envelope-second-root'] = good + '<x/>'
    return docs


def entries():
    import saml2_tophat
    from saml2_tophat import samlp, saml, soap, pack, md
    env = lambda d: ('<soap:Envelope xmlns:soap="http://schemas.xmlsoap.org/soap/envelope/"><soap:Body>%s</soap:Body></soap:Envelope>'
                     % (d if isinstance(d, str) else '')) if isinstance(d, str) and not d.startswith('<?xml') else d
    return [
        ('saml2_tophat.create_class_from_xml_string', lambda d: saml2_tophat.create_class_from_xml_string(samlp.Response, d), samlp.Response),
        ('samlp.response_from_string', samlp.response_from_string, samlp.Response),
        ('samlp.any_response_from_string', samlp.any_response_from_string, saml2_tophat.SamlBase),
        ('samlp.authn_request_from_string', samlp.authn_request_from_string, samlp.AuthnRequest),
        ('saml.assertion_from_string', saml.assertion_from_string, saml.Assertion),
        ('md.entity_descriptor_from_string', md.entity_descriptor_from_string, md.EntityDescriptor),
        ('saml2_tophat.extension_element_from_string', saml2_tophat.extension_element_from_string, saml2_tophat.ExtensionElement),
        ('soap.parse_soap_enveloped_saml_thingy', lambda d: soap.parse_soap_enveloped_saml_thingy(env(d), ['{urn:oasis:names:tc:SAML:2.0:protocol}Response']), (str, bytes)),
        ('soap.open_soap_envelope', lambda d: soap.open_soap_envelope(env(d)), dict),
        ('soap.class_instances_from_soap_enveloped_saml_thingies', lambda d: soap.class_instances_from_soap_enveloped_saml_thingies(env(d), [samlp]), dict),
        ('pack.parse_soap_enveloped_saml', lambda d: pack.parse_soap_enveloped_saml(env(d), samlp.Response), tuple),
    ]


def run(tier, seed):
    from pyvc import front     # noqa  (puts the working tree first on sys.path)
    accesses = []
    real_open, real_socket = builtins.open, socket.socket

    def spy_open(path, *a, **kw):
        if isinstance(path, (str, bytes)) and ('passwd' in str(path) or str(path).startswith(('http', 'file:'))):
            accesses.append(('open', str(path)))
        return real_open(path, *a, **kw)

    class SpySocket(real_socket):
        def connect(self, addr):
            accesses.append(('connect', repr(addr)))
            raise OSError('blocked by the C11 monitor')

    violations, n, distinct = [], 0, set()
    builtins.open, socket.socket = spy_open, SpySocket
    try:
        docs = catalogue()
        for ename, fn, expect in entries():
            for dname, doc in docs.items():
                n += 1
                before = len(accesses)
                outcome = None
                try:
                    res = fn(doc)
                    if res is None or res == '' or res == {} or res == b'' or (isinstance(res, tuple) and res and res[0] is None):
                        outcome = 'none'
                    else:
                        outcome = 'object'
                        text = repr(getattr(res, '__dict__', res)) + (res.to_string().decode() if hasattr(res, 'to_string') else '')
                        if CANARY in text or 'root:' in text:
                            violations.append({'name': 'bounded[hostile-xml]', 'entry': ename, 'document': dname,
                                               'what': 'entity content was expanded into the parsed object'})
                        if 'ENTITY' in (doc if isinstance(doc, str) else ''):
                            violations.append({'name': 'bounded[hostile-xml]', 'entry': ename, 'document': dname,
                                               'what': 'a document that declares entities was parsed into an object'})
                        if (dname.startswith('truncated') or dname in ('not-xml', 'empty')) and not ename.startswith(('soap.', 'pack.')):
                            violations.append({'name': 'bounded[hostile-xml]', 'entry': ename, 'document': dname,
                                               'what': 'malformed input produced an object instead of an exception / None'})
                except Exception as e:
                    outcome = 'raise:' + type(e).__name__
                if len(accesses) != before:
                    violations.append({'name': 'bounded[hostile-xml]', 'entry': ename, 'document': dname,
                                       'what': 'file / network access during parsing: %r' % (accesses[before:],)})
                distinct.add((ename, dname, outcome))
        for ename, fn, expect in entries():
            if not ename.startswith(('soap.', 'pack.')):
                continue
            for dname, doc in envelope_catalogue().items():
                n += 1
                try:
                    res = fn('<?xml version="1.0"?>' + doc)     # (the declaration makes env() pass the text through unchanged)
                    if not (res is None or res == '' or res == {} or res == b'' or (isinstance(res, tuple) and res and res[0] is None)):
                        violations.append({'name': 'bounded[hostile-xml]', 'entry': ename, 'document': dname,
                                           'what': 'a malformed SOAP envelope produced a message instead of an exception / None'})
                        outcome = 'object'
                    else:
                        outcome = 'none'
                except Exception as e:
                    outcome = 'raise:' + type(e).__name__
                distinct.add((ename, dname, outcome))
    finally:
        builtins.open, socket.socket = real_open, real_socket
    return {'name': 'hostile_xml', 'label': 'BOUNDED (validation of E-DEFUSED at the public parse entries; not a proof)',
            'bound': '%d entry points x %d documents + %d SOAP entry points x %d malformed envelopes' % (
                len(entries()), len(catalogue()), len([e for e in entries() if e[0].startswith(('soap.', 'pack.'))]), len(envelope_catalogue())),
            'evaluations': n, 'distinct_outcomes': len(distinct), 'violations': violations}


if __name__ == '__main__':
    import json
    sys.path.insert(0, __import__('os').path.dirname(__import__('os').path.dirname(__import__('os').path.abspath(__file__))))
    print(json.dumps(run('quick', 0), indent=1)[:3000])
