"""BOUNDED stand-in for the parts of C18 that are not verified deductively (decode o code, IdentDB lookups / issuing /
manage-name-id; never counted as proved): (1) decode(code(n)) == n field by field and code() injective on a grid of field
contents with separators, percent signs, spaces and non-ASCII text; (2) every operation sequence up to length N over
2 users x 2 SPs against a reference map: every issued, not withdrawn identifier resolves to exactly its user."""
import itertools
import sys
import warnings

warnings.simplefilter('ignore')
VALUES = [None, '', 'a', 'a b', 'x,y', '1=2', '100%', '%2C', u'\xe5\xe4\xf6', 'a=b,c d%', ' ', ',']
FIELDS = ['name_qualifier', 'sp_name_qualifier', 'format', 'sp_provided_id', 'text']


def run(tier, seed):
    from pyvc import front     # noqa
    from saml2_tophat import ident, saml
    from saml2_tophat.saml import NAMEID_FORMAT_PERSISTENT, NAMEID_FORMAT_TRANSIENT
    violations, n = [], 0
    seen = {}
    pool = VALUES if tier == 'thorough' else VALUES[:9]
    combos = itertools.product(pool, repeat=3)
    for a, b, c in combos:
        for fields in (('name_qualifier', 'sp_name_qualifier', 'text'), ('format', 'sp_provided_id', 'text')):
            n += 1
            nid = saml.NameID(**dict(zip(fields, (a, b, c))))
            cd = ident.code(nid)
            if ' ' in cd:
                violations.append({'name': 'bounded[ident-history]', 'what': 'code(%r) contains a space: %r' % (dict(zip(fields, (a, b, c))), cd)})
            back = ident.decode(cd)
            norm = tuple((getattr(nid, f) or None) for f in FIELDS)
            got = tuple((getattr(back, f) or None) for f in FIELDS)
            if norm != got:
                violations.append({'name': 'bounded[ident-history]', 'what': 'decode(code(%r)) gives %r' % (norm, got)})
            if cd in seen and seen[cd] != norm:
                violations.append({'name': 'bounded[ident-history]', 'what': 'code collision: %r and %r -> %r' % (seen[cd], norm, cd)})
            seen[cd] = norm
    # operation histories
    N = 3 if tier == 'quick' else 4
    users, sps = ['u1', 'u2'], ['sp1', 'sp2']
    special = [u'alice smith@example.org', u'50%,a=b', u'bj\xf6rn']
    ops = [('persistent', u, s) for u in users for s in sps] + [('transient', u, s) for u in users for s in sps] + \
          [('remove_local', u) for u in users] + [('remove_remote_last',)] + \
          [('store_special', 'u1', special[0]), ('store_special', 'u2', special[1]), ('store_special', 'u1', special[2])]
    withdrawn = {}
    count = 0
    for seq in itertools.product(ops, repeat=N):
        count += 1
        if tier == 'quick' and count % 11 != seed % 11:
            continue
        db = ident.IdentDB({})
        withdrawn = {}
        issued = {}     # text -> (user, NameID)
        last = None
        for op in seq:
            n += 1
            try:
                if op[0] == 'persistent':
                    before = dict((t, u) for t, (u, _) in issued.items())
                    nid = db.persistent_nameid(op[1], op[2], 'idp')
                    prev = [t for t, (u, x) in issued.items() if u == op[1] and x.sp_name_qualifier == op[2] and x.format == NAMEID_FORMAT_PERSISTENT]
                    if prev and nid.text not in prev:
                        violations.append({'name': 'bounded[ident-history]', 'what': 'persistent id of %s at %s not stable after %r' % (op[1], op[2], seq)})
                    if not prev and nid.text in before:
                        violations.append({'name': 'bounded[ident-history]', 'what': 'new persistent id reuses an issued text after %r' % (seq,)})
                    issued[nid.text] = (op[1], nid)
                    last = nid
                elif op[0] == 'transient':
                    nid = db.transient_nameid(op[1], op[2], 'idp')
                    if nid.text in issued:
                        violations.append({'name': 'bounded[ident-history]', 'what': 'transient id not fresh after %r' % (seq,)})
                    issued[nid.text] = (op[1], nid)
                    last = nid
                elif op[0] == 'store_special':
                    # an identifier whose text needs escaping in the stored code (e-mail style, separators, non-ASCII)
                    if op[2] in issued:
                        continue
                    nid = saml.NameID(text=op[2], format='urn:oasis:names:tc:SAML:1.1:nameid-format:emailAddress', sp_name_qualifier='sp1')
                    db.store(op[1], nid)
                    issued[nid.text] = (op[1], nid)
                    last = nid
                elif op[0] == 'remove_local':
                    db.remove_local(op[1])
                    for t in [t for t, (u, _) in issued.items() if u == op[1]]:
                        withdrawn[t] = issued[t][1]
                        del issued[t]
                    if last is not None and last.text not in issued:
                        last = None
                elif op[0] == 'remove_remote_last' and last is not None:
                    db.remove_remote(last)
                    issued.pop(last.text, None)
                    last = None
            except Exception as e:
                violations.append({'name': 'bounded[ident-history]', 'what': '%r raised %r in %r' % (op, e, seq)})
                break
            for t, nid in list(withdrawn.items()):
                if t not in issued and db.find_local_id(nid) is not None:
                    violations.append({'name': 'bounded[ident-history]', 'what': 'withdrawn identifier %r still resolves to %r after %r' % (t, db.find_local_id(nid), seq)})
            for t, (u, nid) in issued.items():
                if db.find_local_id(nid) != u:
                    violations.append({'name': 'bounded[ident-history]', 'what': 'identifier %r resolves to %r, issued for %r, after %r' % (t, db.find_local_id(nid), u, seq)})
            for u in users:
                # (a user whose identifiers were all withdrawn keeps an empty list entry that decodes to an empty NameID:
                #  not an issued identifier, ignored here)
                texts = sorted(x.text for x in db.find_nameid(u) if x.text)
                want = sorted(t for t, (uu, _) in issued.items() if uu == u)
                if texts != want:
                    violations.append({'name': 'bounded[ident-history]', 'what': 'user %s lists %r, expected %r after %r' % (u, texts, want, seq)})
            if len(violations) > 15:
                break
        if len(violations) > 15:
            break
    return {'name': 'ident_history', 'label': 'BOUNDED (name-identifier encoding grid and IdentDB operation histories; not a proof)',
            'bound': 'encoding: %d^3 field-value combinations x 2 field layouts; histories: sequences of length %d over %d operations (2 users x 2 SPs), %s'
                     % (len(pool), N, len(ops), 'every 11th sequence' if tier == 'quick' else 'all'),
            'evaluations': n, 'distinct_codes': len(seen), 'violations': violations[:15]}


if __name__ == '__main__':
    import json, os
    sys.path.insert(0, os.path.dirname(os.path.dirname(os.path.abspath(__file__))))
    r = run(sys.argv[1] if len(sys.argv) > 1 else 'quick', 0)
    print(json.dumps({k: v for k, v in r.items() if k != 'violations'}, indent=1))
    for v in r['violations'][:8]:
        print(v)
    print(len(r['violations']), 'violations')
