"""A stand-in for the xmlsec1 command line (E-XMLSEC stand-in; xmlsec1 itself is not installed in this sandbox).  It is run as a
real child process by the unmodified CryptoBackendXmlSec1 (command building, temporary files, Popen, output parsing are the
code of the working tree).  It is NOT cryptography: "signatures" and "ciphertexts" are hashes / base64 tied to a key identity,
which is enough to make ORDER and COVERAGE observable:

--sign      the start node is the element whose ID attribute equals --node-id; the signature filled in is the FIRST ds:Signature in
            document order at or below the start node (what xmlsec1 does); the digested element is the one its single Reference
            URI names; DigestValue = sha256 of that element without that Signature (enveloped transform), SignatureValue =
            sha256(key identity, digest).  Signing an inner element after an outer one therefore invalidates the outer signature.
--verify    the same search and digest; prints OK on stderr iff digest and signature value match for the given certificate.
--encrypt   the node selected by --node-xpath (a chain of /*[local-name()="X"] steps) in --xml-data is replaced by the template
            (an xenc:EncryptedData) whose CipherValue becomes base64(key identity of the certificate, newline, serialised node).
--decrypt   the FIRST xenc:EncryptedData in document order is replaced by its content iff the private key's identity is the one it
            was encrypted for; otherwise exit 1 and no output (what xmlsec1 does).
--version / --list-transforms   canned answers.

Key identities: sha256 of a certificate's DER bytes; a private key file is mapped to its certificate's identity by the JSON table
in $XMLSEC1_STANDIN_KEYS (path -> identity), supplied by the harness."""
import base64
import hashlib
import json
import os
import re
import sys
import xml.etree.ElementTree as ET

DS = 'http://www.w3.org/2000/09/xmldsig#'
XENC = 'http://www.w3.org/2001/04/xmlenc#'


def cert_identity(path):
    txt = open(path, 'rb').read()
    if b'-----BEGIN' in txt:
        body = re.sub(rb'-----[A-Z ]+-----', b'', txt)
        der = base64.b64decode(re.sub(rb'\s+', b'', body))
    else:
        der = txt
    return hashlib.sha256(der).hexdigest()


def key_identity(path):
    table = json.loads(os.environ.get('XMLSEC1_STANDIN_KEYS', '{}'))
    return table.get(os.path.abspath(path)) or table.get(path)


def canon(elem, skip=None):
    if elem is skip:
        return None
    kids = [c for c in (canon(k, skip) for k in list(elem)) if c is not None]
    return (elem.tag, sorted(elem.attrib.items()), (elem.text or '').strip(), kids)


def digest_of(elem, skip):
    return hashlib.sha256(repr(canon(elem, skip)).encode('utf-8')).hexdigest()


def find_by_id(root, ident, attr='ID'):
    return [e for e in root.iter() if e.get(attr) == ident]


def first_signature(start):
    for e in start.iter():          # document order, the start node included
        if e.tag == '{%s}Signature' % DS:
            return e
    return None


def sig_parts(root, sig):
    refs = sig.findall('{%s}SignedInfo/{%s}Reference' % (DS, DS))
    if len(refs) != 1:
        return None
    uri = refs[0].get('URI') or ''
    if uri == '':
        target = [root]
    elif uri.startswith('#'):
        target = find_by_id(root, uri[1:])
    else:
        return None                   # --enabled-reference-uris empty,same-doc
    if len(target) != 1:
        return None
    dv = refs[0].find('{%s}DigestValue' % DS)
    sv = sig.find('{%s}SignatureValue' % DS)
    if dv is None or sv is None:
        return None
    return target[0], dv, sv


def opt(args, name):
    return args[args.index(name) + 1] if name in args else None


def simulated_failure(mode, args):
    """$XMLSEC1_STANDIN_FAIL names a JSON file {"op": "--verify" | ... | "any", "how": ..., "after": n, "count": k}: the n+1-th and
    later invocations of that operation fail the way `how` says (the bounded check tool_failure uses this to walk failure modes
    through histories).  Returns an exit code, or None to carry on normally."""
    ctl = os.environ.get('XMLSEC1_STANDIN_FAIL')
    if not ctl or not os.path.exists(ctl):
        return None
    with open(ctl) as f:
        d = json.load(f)
    if d.get('op') not in ('any', mode):
        return None
    d['count'] = d.get('count', 0) + 1
    with open(ctl, 'w') as f:
        json.dump(d, f)
    if d['count'] <= d.get('after', 0):
        return None
    how = d.get('how')
    out = opt(args, '--output')
    if how == 'exit1':                  # an ordinary error: message on stderr, nothing written
        sys.stderr.write('Error: simulated failure\n')
        return 1
    if how == 'ok-inside-text':         # an error whose diagnostic merely mentions OK inside other text
        sys.stderr.write('func=xmlSecOpenSSLEvpSignatureVerify:msg=aborted, status is not OK ; giving up\nERROR-NOT-OK\n')
        return 1
    if how == 'killed':                 # the process dies from a signal (negative return code for the caller)
        import signal
        sys.stderr.flush()
        os.kill(os.getpid(), signal.SIGKILL)
    if how == 'silent':                 # exit code 0, but nothing on stderr and nothing written
        return 0
    if how == 'garbage':                # error exit with unrelated bytes in the output file and on stderr
        if out:
            open(out, 'wb').write(b'\x00\xff not xml')
        sys.stderr.write('\x07 garbage\n')
        return 1
    if how == 'truncated':              # error exit after half of the document was written
        if out and os.path.exists(args[-1]):
            data = open(args[-1], 'rb').read()
            open(out, 'wb').write(data[:len(data) // 2])
        sys.stderr.write('Error: simulated failure after partial output\n')
        return 1
    return None


def main(argv):
    args = argv[1:]
    if not args:
        return 1
    mode = args[0]
    rc = simulated_failure(mode, args)
    if rc is not None:
        return rc
    if mode == '--version':
        sys.stdout.write('xmlsec1 1.2.33 (standin)\n')
        return 0
    if mode == '--list-transforms':
        sys.stdout.write('Registered transform klasses:\n"rsa-sha1","rsa-sha256","sha1","sha256","enveloped-signature","exc-c14n"\n')
        return 0
    out = opt(args, '--output')
    attr = 'ID'
    for a in args:
        if a.startswith('--id-attr:'):
            attr = a.split(':', 1)[1] or 'ID'
    data_file = args[-1]
    if mode in ('--sign', '--verify'):
        root = ET.fromstring(open(data_file, 'rb').read())
        node_id = opt(args, '--node-id')
        if node_id:
            starts = find_by_id(root, node_id, attr)
            if len(starts) != 1:
                sys.stderr.write('Error: node with id "%s" not found or not unique\n' % node_id)
                return 1
            start = starts[0]
        else:
            start = root
        sig = first_signature(start)
        parts = sig_parts(root, sig) if sig is not None else None
        if parts is None:
            sys.stderr.write('Error: no usable signature\nFAIL\n')
            return 1
        target, dv, sv = parts
        digest = digest_of(target, sig)
        if mode == '--sign':
            kid = key_identity(opt(args, '--privkey-pem'))
            if kid is None:
                sys.stderr.write('Error: unknown private key\n')
                return 1
            dv.text = digest
            sv.text = hashlib.sha256((kid + ':' + digest).encode()).hexdigest()
            open(out, 'wb').write(b'<?xml version="1.0" encoding="UTF-8"?>\n' + ET.tostring(root, encoding='utf-8'))
            return 0
        cert = opt(args, '--pubkey-cert-pem') or opt(args, '--pubkey-cert-der')
        kid = cert_identity(cert)
        if (dv.text or '').strip() == digest and (sv.text or '').strip() == hashlib.sha256((kid + ':' + digest).encode()).hexdigest():
            sys.stderr.write('OK\nSignedInfo References (ok/all): 1/1\nManifests References (ok/all): 0/0\n')
            return 0
        sys.stderr.write('FAIL\nSignedInfo References (ok/all): 0/1\n')
        return 1
    if mode == '--encrypt':
        root = ET.fromstring(open(opt(args, '--xml-data'), 'rb').read())
        template = ET.fromstring(open(data_file, 'rb').read())
        steps = re.findall(r'local-name\(\)=[\'"]([^\'"]+)[\'"]', opt(args, '--node-xpath') or '')
        if not steps or root.tag.rsplit('}', 1)[-1] != steps[0]:
            sys.stderr.write('Error: xpath selects nothing\n')
            return 1
        parent, node = None, root
        for name in steps[1:]:
            nxt = [c for c in list(node) if c.tag.rsplit('}', 1)[-1] == name]
            if not nxt:
                sys.stderr.write('Error: xpath selects nothing\n')
                return 1
            parent, node = node, nxt[0]
        if parent is None:
            sys.stderr.write('Error: cannot replace the root\n')
            return 1
        kid = cert_identity(opt(args, '--pubkey-cert-pem'))
        cv = None
        for e in template.iter('{%s}CipherValue' % XENC):
            cv = e                      # the last one is EncryptedData's own (the first sits in ds:KeyInfo/EncryptedKey)
        if cv is None:
            sys.stderr.write('Error: template without CipherValue\n')
            return 1
        cv.text = base64.b64encode(kid.encode() + b'\n' + ET.tostring(node, encoding='utf-8')).decode('ascii')
        idx = list(parent).index(node)
        parent.remove(node)
        parent.insert(idx, template)
        open(out, 'wb').write(b'<?xml version="1.0" encoding="UTF-8"?>\n' + ET.tostring(root, encoding='utf-8'))
        return 0
    if mode == '--decrypt':
        root = ET.fromstring(open(data_file, 'rb').read())
        kid = key_identity(opt(args, '--privkey-pem'))
        parent_of = dict((c, p) for p in root.iter() for c in list(p))
        for e in root.iter('{%s}EncryptedData' % XENC):
            cvs = list(e.iter('{%s}CipherValue' % XENC))
            try:
                blob = base64.b64decode((cvs[-1].text or '').strip())
                for_kid, _, clear = blob.partition(b'\n')
            except Exception:
                sys.stderr.write('Error: malformed cipher value\n')
                return 1
            if kid is None or for_kid.decode('ascii', 'replace') != kid:
                sys.stderr.write('Error: failed to decrypt (wrong key)\n')
                return 1
            parent = parent_of[e]
            idx = list(parent).index(e)
            parent.remove(e)
            parent.insert(idx, ET.fromstring(clear))
            open(out, 'wb').write(b'<?xml version="1.0" encoding="UTF-8"?>\n' + ET.tostring(root, encoding='utf-8'))
            return 0
        sys.stderr.write('Error: no EncryptedData\n')
        return 1
    sys.stderr.write('Error: unknown command %s\n' % mode)
    return 1


if __name__ == '__main__':
    sys.exit(main(sys.argv))
