"""BOUNDED stand-in for time_util.str_to_time, whose contract is ASSUMED in the C04 proofs (epoch / parsable; never counted
as proved): the real function is run on a grid of instants x spellings (no fraction, fractions of 1..9 digits, with and
without the trailing Z) and compared with an independently computed instant: the parsed time must lie within one second
of the instant the spelling denotes; spellings that are not timestamps must raise."""
import calendar
from fractions import Fraction
import datetime
import warnings
warnings.simplefilter('ignore')


def run(tier, seed):
    from pyvc import front     # noqa  (puts the working tree first on sys.path)
    from saml2_tophat import time_util
    violations, n = [], 0
    bases = [datetime.datetime(2020, 1, 1, 0, 0, 0), datetime.datetime(1999, 12, 31, 23, 59, 59),
             datetime.datetime(2024, 2, 29, 12, 30, 15), datetime.datetime(2038, 1, 19, 3, 14, 8),
             datetime.datetime(2026, 9, 28, 6, 22, 46)]
    fracs = ['', '.0', '.5', '.9', '.25', '.999', '.500', '.1234', '.90000', '.500000', '.900000', '.999999', '.9999999', '.123456789']
    if tier == 'quick':
        bases = bases[:3] + bases[4:]
    for b in bases:
        for fr in fracs:
            for z in (['Z', ''] if fr else ['Z']):
                s = b.strftime('%Y-%m-%dT%H:%M:%S') + fr + z
                true = calendar.timegm(b.timetuple()) + (Fraction('0' + fr) if fr else Fraction(0))     # exact
                n += 1
                try:
                    got = calendar.timegm(time_util.str_to_time(s))
                except Exception as e:
                    violations.append({'name': 'bounded[time-parse]', 'input': s, 'what': 'valid timestamp rejected: %r' % (e,)})
                    continue
                if abs(got - true) >= 1:
                    violations.append({'name': 'bounded[time-parse]', 'input': s,
                                       'what': 'parsed as %d, the spelling denotes %s (off by %.1f s)' % (got, true, float(got - true))})
    for bad in ['yesterday', '2020-13-01T00:00:00Z', '2020-01-01 00:00:00', '2020-01-01T25:00:00Z', '20200101T000000Z', 'T00:00:00Z',
                '2020-01-01T00:00:00+01:00x']:
        n += 1
        try:
            got = time_util.str_to_time(bad)
            violations.append({'name': 'bounded[time-parse]', 'input': bad, 'what': 'not a timestamp, but parsed as %r' % (got,)})
        except Exception:
            pass
    n += 1
    if time_util.str_to_time('') != 0 or time_util.str_to_time(None) != 0:
        violations.append({'name': 'bounded[time-parse]', 'input': '', 'what': 'empty timestamp is not 0'})
    return {'name': 'time_parse', 'label': 'BOUNDED (differential check of the assumed str_to_time contract; not a proof)',
            'bound': '%d instants x %d fraction spellings x Z / no Z, 7 non-timestamps' % (len(bases), len(fracs)),
            'evaluations': n, 'violations': violations}
