"""BOUNDED companion of C10 (never counted as proved; it stands in for no clause): the IdP-side counterpart of wrap_table.  An
AuthnRequest validly signed by the real SP code (stand-in tool, see xmlsec1_standin.py) is edited or wrapped the way signature-
wrapping attacks do -- the consumer URL changed in place, a forged outer AuthnRequest with the genuine one parked in Extensions
in front of a junk self-referencing Signature, the genuine Signature copied onto a forged request -- and handed to the real
Server.parse_authn_request of an IdP configured with want_authn_requests_signed.  Whatever the IdP accepts must be the request the SP signed: an accepted forged consumer URL or
request ID is a violation."""
import copy
import logging
import warnings
import xml.etree.ElementTree as ET

warnings.simplefilter('ignore')
SAMLP = 'urn:oasis:names:tc:SAML:2.0:protocol'
SAML = 'urn:oasis:names:tc:SAML:2.0:assertion'
DS = 'http://www.w3.org/2000/09/xmldsig#'
EVIL_ACS = 'https://evil.example.org/acs'


def q(ns, name):
    return '{%s}%s' % (ns, name)


def forgeries(xml):
    from bounded.wrap_table import _junk_signature
    root = ET.fromstring(xml.encode('utf-8'))
    out = []
    # the consumer URL edited in place
    r = copy.deepcopy(root)
    r.set('AssertionConsumerServiceURL', EVIL_ACS)
    out.append(('edit-consumer-url', r))
    # a forged request around the genuine one
    for new_id in (None, 'id-evil-request'):
        for first in (True, False):
            for junk in (True, False):
                outer = ET.Element(root.tag, dict(root.attrib))
                outer.set('AssertionConsumerServiceURL', EVIL_ACS)
                if new_id:
                    outer.set('ID', new_id)
                issuer = copy.deepcopy(root.find(q(SAML, 'Issuer')))
                ext = ET.Element(q(SAMLP, 'Extensions'))
                ext.append(copy.deepcopy(root))
                parts = [issuer] + ([ext] if first else []) + ([_junk_signature(outer.get('ID'))] if junk else []) + ([] if first else [ext])
                for p in parts:
                    if p is not None:
                        outer.append(p)
                for c in root:
                    if c.tag not in (q(SAML, 'Issuer'), q(DS, 'Signature'), q(SAMLP, 'Extensions')):
                        outer.append(copy.deepcopy(c))
                out.append(('request-wrapped[%s,%s,%s]' % ('extensions-first' if first else 'extensions-last', 'new-id' if new_id else 'same-id',
                                                            'junk-signature' if junk else 'no-signature'), outer))
    # the genuine Signature copied onto a forged request; the genuine request kept in Extensions so that it still digests
    for new_id in (None, 'id-evil-request'):
        sig = root.find(q(DS, 'Signature'))
        if sig is not None:
            forged = ET.Element(root.tag, dict(root.attrib))
            forged.set('AssertionConsumerServiceURL', EVIL_ACS)
            if new_id:
                forged.set('ID', new_id)
            forged.append(copy.deepcopy(root.find(q(SAML, 'Issuer'))))
            forged.append(copy.deepcopy(sig))
            ext = ET.SubElement(forged, q(SAMLP, 'Extensions'))
            ext.append(copy.deepcopy(root))
            out.append(('signature-copied[%s]' % ('new-id' if new_id else 'same-id'), forged))
    return [(n, ET.tostring(t, encoding='unicode')) for n, t in out]


def run(tier, seed):
    from pyvc import front     # noqa
    logging.disable(logging.CRITICAL)
    from bounded._standin_env import Env, SSO, ACS
    from saml2_tophat import BINDING_HTTP_REDIRECT
    from saml2_tophat.s_utils import deflate_and_base64_encode
    violations, n, rejected, names = [], 0, 0, set()
    with Env() as env:
        sp = env.sp_for('sp', False, False)
        idp = env.strict_idp()       # want_authn_requests_signed: an unsigned request is not acceptable at all
        try:
            rid, req = sp.create_authn_request(SSO, binding=env.POST, sign=True)
            xml = str(req)
        except Exception as e:
            return {'name': 'request_wrap', 'label': 'BOUNDED', 'bound': 'none', 'evaluations': 1,
                    'violations': [{'name': 'bounded[request-wrap:genuine]', 'what': 'the SP could not build a signed request: %r' % (e,)}]}

        def read(text):
            try:
                got = idp.parse_authn_request(deflate_and_base64_encode(text), BINDING_HTTP_REDIRECT)
            except Exception as e:
                return None, repr(e)[:200]
            if got is None:
                return None, 'no request object'
            return (got.message.id, got.message.assertion_consumer_service_url), None
        n += 1
        got, err = read(xml)
        if got is None or got[0] != rid or got[1] != ACS:
            violations.append({'name': 'bounded[request-wrap:genuine]', 'case': 'genuine signed request',
                               'what': 'the genuine signed request was not read as sent: %r %r' % (got, err)})
        for name, forged in forgeries(xml):
            n += 1
            names.add(name)
            got, err = read(forged)
            if got is None:
                rejected += 1
            elif got[1] != ACS or got[0] != rid:
                violations.append({'name': 'bounded[request-wrap:%s]' % name.split('[')[0], 'case': 'forgery %s' % name,
                                   'what': 'a rearranged copy of a validly signed AuthnRequest was accepted with ID %r and consumer URL %r '
                                           '(the SP signed ID %r, consumer URL %r)' % (got[0], got[1], rid, ACS), 'input': forged[:20000]})
    return {'name': 'request_wrap', 'label': 'BOUNDED (signature-wrapping rearrangements of a signed AuthnRequest, with a stand-in for xmlsec1; not a proof)',
            'bound': '%d kinds of rearrangement of one signed request; stand-in tool' % len(names),
            'evaluations': n, 'forgeries_rejected': rejected, 'violations': violations[:30]}
