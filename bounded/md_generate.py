"""BOUNDED stand-in (never counted as proved) for the last clause of C16: "metadata generated from an entity's own configuration
loads back to the same endpoints and keys".  SP / IdP configurations are generated over a grid (endpoint lists written in
the documented spellings -- location string, (location, binding), (location, binding, index), dictionary; indexes 0, 1, 65535, given as number or text, explicit next to automatic --, one or several
bindings per service, zero to two logout endpoints, signing certificate / additional certificates / encryption key pairs
present or absent, metadata_key_usage, entity categories, valid_for); the real metadata.entity_descriptor turns each into a
document; two such documents are loaded TOGETHER into one real MetadataStore; every lookup the library offers for those
services per binding, certs per use (compared without white space), entity categories and the unknown-entity / unknown-binding
distinction is compared with what the configuration says -- for the entity itself and with nothing of the other entity."""
import itertools
import logging
import os
import sys
import warnings

warnings.simplefilter('ignore')

POST = 'urn:oasis:names:tc:SAML:2.0:bindings:HTTP-POST'
REDIR = 'urn:oasis:names:tc:SAML:2.0:bindings:HTTP-Redirect'
SOAP = 'urn:oasis:names:tc:SAML:2.0:bindings:SOAP'
ARTIFACT = 'urn:oasis:names:tc:SAML:2.0:bindings:HTTP-Artifact'
CATEGORY = 'http://www.geant.net/uri/dataprotection-code-of-conduct/v1'


def run(tier, seed):
    from pyvc import front     # noqa  (puts the working tree first on sys.path)
    logging.disable(logging.CRITICAL)
    import saml2_tophat.metadata as md_mod
    from saml2_tophat.config import Config
    from saml2_tophat.metadata import entity_descriptor
    from saml2_tophat.s_utils import UnknownSystemEntity, UnsupportedBinding
    md_mod.algorithm_support_in_metadata = lambda xmlsec: []       # the tool is not there to be asked
    keys = os.path.join(front.REPO, 'tests')

    def body(name):
        return ''.join(l.strip() for l in open(os.path.join(keys, name)) if l.strip() and not l.startswith('-----'))
    violations, n = [], [0]

    # ---- the grid: each spec is (role, {service: [(location, binding, index-or-None, spelling)]}, key options, extras)
    def endpoint_sets(role, host):
        if role == 'sp':
            main, sets = 'assertion_consumer_service', [
                [('https://%s/acs/post' % host, POST, None, 'pair')],
                [('https://%s/acs/post' % host, POST, None, 'pair'), ('https://%s/acs/redirect' % host, REDIR, None, 'pair'),
                 ('https://%s/acs/post2' % host, POST, None, 'pair')],
                [('https://%s/acs/a' % host, POST, 5, 'triple'), ('https://%s/acs/b' % host, ARTIFACT, 2, 'triple')],
                [('https://%s/acs/default' % host, POST, None, 'string')],
                # boundary indexes (0, a large one, one given as text), the dictionary spelling, explicit next to automatic
                [('https://%s/acs/zero' % host, POST, 0, 'triple'), ('https://%s/acs/one' % host, ARTIFACT, 1, 'triple'),
                 ('https://%s/acs/auto' % host, REDIR, None, 'pair')],
                [('https://%s/acs/d0' % host, POST, 0, 'dict'), ('https://%s/acs/d65535' % host, REDIR, 65535, 'dict'),
                 ('https://%s/acs/dtext' % host, POST, '7', 'dict'), ('https://%s/acs/dauto' % host, POST, None, 'dict')]]
        else:
            main, sets = 'single_sign_on_service', [
                [('https://%s/sso/redirect' % host, REDIR, None, 'pair')],
                [('https://%s/sso/redirect' % host, REDIR, None, 'pair'), ('https://%s/sso/post' % host, POST, None, 'pair')],
                [('https://%s/sso/default' % host, REDIR, None, 'string')]]
        slos = [[], [('https://%s/slo/redirect' % host, REDIR, None, 'pair')],
                [('https://%s/slo/soap' % host, SOAP, None, 'pair'), ('https://%s/slo/post' % host, POST, None, 'pair')]]
        return [{main: m, 'single_logout_service': s} if s else {main: m} for m in sets for s in slos]

    key_options = [
        {'cert': None, 'extra': None, 'enc': None, 'usage': 'both'},
        {'cert': 'test.pem', 'extra': None, 'enc': None, 'usage': 'both'},
        {'cert': 'test.pem', 'extra': ['test_1.crt'], 'enc': None, 'usage': 'both'},
        {'cert': 'test.pem', 'extra': None, 'enc': ['test_2.crt'], 'usage': 'both'},
        {'cert': 'test.pem', 'extra': None, 'enc': ['test_2.crt', 'test_1.crt'], 'usage': 'both'},
        {'cert': 'test.pem', 'extra': None, 'enc': ['test_2.crt'], 'usage': 'signing'},
        {'cert': 'test.pem', 'extra': None, 'enc': ['test_2.crt'], 'usage': 'encryption'},
    ]
    extras = [{}, {'entity_category': [CATEGORY]}, {'valid_for': 24}]

    def specs(role, host):
        out = []
        for eps, ko, ex in itertools.product(endpoint_sets(role, host), key_options, extras):
            out.append({'role': role, 'id': 'https://%s/%s.xml' % (host, role), 'endpoints': eps, 'keys': ko, 'extras': ex})
        return out

    def conf_of(spec):
        def spell(e):
            loc, binding, index, how = e
            if how == 'dict':
                d = {'location': loc, 'binding': binding}
                if index is not None:
                    d['index'] = index
                return d
            return loc if how == 'string' else (loc, binding) if how == 'pair' else (loc, binding, index)
        conf = {'entityid': spec['id'], 'xmlsec_binary': sys.executable,
                'service': {spec['role']: {'endpoints': dict((s, [spell(e) for e in es]) for s, es in spec['endpoints'].items())}}}
        ko = spec['keys']
        if ko['cert']:
            conf['key_file'] = os.path.join(keys, 'test.key')
            conf['cert_file'] = os.path.join(keys, ko['cert'])
        if ko['extra']:
            conf['additional_cert_files'] = [os.path.join(keys, c) for c in ko['extra']]
        if ko['enc']:
            conf['encryption_keypairs'] = [{'key_file': os.path.join(keys, c.replace('.crt', '.key')), 'cert_file': os.path.join(keys, c)}
                                           for c in ko['enc']]
        if ko['usage'] != 'both':
            conf['metadata_key_usage'] = ko['usage']
        conf.update(spec['extras'])
        return conf

    DEFAULT_BINDING = {'assertion_consumer_service': POST, 'single_sign_on_service': REDIR, 'single_logout_service': POST}

    def expected_services(spec, service, binding):
        """[(location, index or None)] the configuration declares for the service over the binding, in order"""
        out, auto = [], 1
        for loc, b, index, how in spec['endpoints'].get(service, []):
            b = DEFAULT_BINDING[service] if how == 'string' else b
            idx = None
            if service == 'assertion_consumer_service':
                if index is None:
                    idx, auto = str(auto), auto + 1
                else:
                    idx = str(index)
            if binding is None or b == binding:
                out.append((loc, idx, b))
        return out

    def expected_certs(spec, use):
        ko = spec['keys']
        sign = ([body(ko['cert'])] + [body(c) for c in (ko['extra'] or [])]) if ko['cert'] else []
        enc = [body(c) for c in (ko['enc'] or [])]
        if not ko['cert'] and not ko['enc']:
            return []
        want_sign = sign if ko['usage'] in ('both', 'signing') else []
        want_enc = enc if ko['usage'] in ('both', 'encryption') else []
        if not want_sign and not want_enc and ko['cert']:
            # no descriptor of the asked-for kind: the builder falls back to one KeyDescriptor without a use
            return [body(ko['cert'])]
        return want_sign if use == 'signing' else want_enc

    def bad(spec, what):
        if len(violations) < 40:
            violations.append({'name': 'bounded[md-generate]', 'case': 'configuration %r' % (conf_of(spec),), 'what': what})

    sp_specs, idp_specs = specs('sp', 'sp.example.org'), specs('idp', 'idp.example.net')
    if tier == 'quick':
        pairs = list(zip(sp_specs, itertools.cycle(idp_specs)))
    else:
        pairs = list(zip(sp_specs, itertools.cycle(idp_specs))) + list(zip(itertools.cycle(sp_specs[::5]), idp_specs))
    for sp_spec, idp_spec in pairs:
        docs = []
        try:
            for spec in (sp_spec, idp_spec):
                docs.append(str(entity_descriptor(Config().load(conf_of(spec), metadata_construction=True))))
        except Exception as e:
            bad(spec, 'metadata could not be generated: %r' % (e,))
            continue
        try:
            mds = Config().load({'entityid': 'https://reader.example.com/sp.xml', 'xmlsec_binary': sys.executable,
                                 'metadata': {'inline': docs}}).metadata
        except Exception as e:
            bad(sp_spec, 'generated metadata could not be loaded: %r' % (e,))
            continue
        for spec, other in ((sp_spec, idp_spec), (idp_spec, sp_spec)):
            n[0] += 1
            eid, typ = spec['id'], 'spsso' if spec['role'] == 'sp' else 'idpsso'
            main = 'assertion_consumer_service' if spec['role'] == 'sp' else 'single_sign_on_service'
            for service in (main, 'single_logout_service'):
                for binding in (POST, REDIR, SOAP, ARTIFACT):
                    want = expected_services(spec, service, binding)
                    try:
                        if service == 'single_logout_service':
                            got = mds.single_logout_service(eid, binding, typ)
                        else:
                            got = getattr(mds, service)(eid, binding)
                    except UnsupportedBinding:
                        got = 'unsupported'
                    except UnknownSystemEntity:
                        got = 'unknown'
                    except Exception as e:
                        got = 'error %r' % (e,)
                    if want:
                        flat = [(x['location'], x.get('index'), x['binding']) for x in got] if isinstance(got, list) else got
                        if flat != want:
                            bad(spec, '%s of %s over %s: metadata serves %r, the configuration declares %r'
                                % (service, eid, binding.rsplit(':', 1)[-1], flat, want))
                    elif got not in ('unsupported', [], None):
                        bad(spec, '%s of %s over %s: metadata serves %r, the configuration declares nothing' % (service, eid, binding.rsplit(':', 1)[-1], got))
            for use in ('signing', 'encryption'):
                want = expected_certs(spec, use)
                try:
                    got = [''.join(c.split()) for c in mds.certs(eid, 'any', use)]
                except Exception as e:
                    got = 'error %r' % (e,)
                if got != want and not (isinstance(got, list) and sorted(got) == sorted(want)):
                    bad(spec, '%s certificates of %s: metadata serves %d certificates %r..., the configuration declares %d %r...'
                        % (use, eid, len(got), [g[:16] for g in got][:4] if isinstance(got, list) else got, len(want), [w[:16] for w in want][:4]))
            want_cat = spec['extras'].get('entity_category', [])
            try:
                got_cat = mds.entity_categories(eid)
            except Exception as e:
                got_cat = 'error %r' % (e,)
            if got_cat != want_cat:
                bad(spec, 'entity categories of %s: metadata serves %r, the configuration declares %r' % (eid, got_cat, want_cat))
        # an entity that is in neither document is unknown, for every lookup
        try:
            mds.single_sign_on_service('https://nobody.example.com/idp.xml', REDIR)
            bad(sp_spec, 'an entity absent from the loaded metadata was not reported as unknown')
        except UnknownSystemEntity:
            pass
        except Exception as e:
            bad(sp_spec, 'an entity absent from the loaded metadata gave %r' % (e,))
    return {'name': 'md_generate', 'label': 'BOUNDED (configuration -> generated metadata -> metadata store lookups; not a proof)',
            'bound': '%d SP and %d IdP configurations (endpoint spellings x logout endpoints x 7 key settings x 3 extras), loaded in %d pairs'
                     % (len(sp_specs), len(idp_specs), len(pairs)),
            'evaluations': n[0], 'violations': violations[:30]}
