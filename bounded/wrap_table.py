"""BOUNDED stand-in (never counted as proved) for the structural half of C01 -- atoms A2 (exactly one direct ds:Signature child),
A3 (the signature the tool verifies is that child), A5 (the ID is unique) and, again, A4 -- whose deciding step is what
xmlsec1 does with `--node-id`: it starts at the element with that ID and verifies the FIRST ds:Signature in document order at
or below it, over whatever that signature's Reference names.  A response validly signed (response, assertion, or both) by
the real IdP code is rearranged the way signature-wrapping attacks do -- edits, a forged outer element with the genuine one
parked in Extensions / Advice / ds:Object, copied or relocated signatures, duplicate Signature children, duplicate IDs -- and
given to the real Saml2Client.parse_authn_request_response under every setting that requires a signature.  Whatever the SP
accepts must carry the genuine identity: an accepted forged subject or attribute value is a violation.

xmlsec1 is not installed; bounded/xmlsec1_standin.py (run as a child process by the unmodified backend) implements exactly the
search-and-digest behaviour described above.  It is a stand-in: what the real tool does is assumption E-XMLSEC."""
import base64
import copy
import logging
import warnings
import xml.etree.ElementTree as ET

warnings.simplefilter('ignore')
SAML = 'urn:oasis:names:tc:SAML:2.0:assertion'
SAMLP = 'urn:oasis:names:tc:SAML:2.0:protocol'
DS = 'http://www.w3.org/2000/09/xmldsig#'
GOOD = {'givenName': ['Derek'], 'mail': ['derek@example.org']}
EVIL_VALUE, EVIL_SUBJECT = 'administrator@example.org', 'EVIL-subject'
FOREIGN_ISSUER = 'https://idp-b.example.net/idp.xml'


def q(ns, name):
    return '{%s}%s' % (ns, name)


def _evil_copy(assertion, new_id, sig):
    """a copy of the genuine assertion that asserts somebody else; sig: 'none' | 'junk-own' | 'copied' | 'junk-last'"""
    a = copy.deepcopy(assertion)
    for v in a.iter(q(SAML, 'AttributeValue')):
        if v.text == 'derek@example.org':
            v.text = EVIL_VALUE
    for nid in a.iter(q(SAML, 'NameID')):
        nid.text = EVIL_SUBJECT
    old_id = a.get('ID')
    if new_id:
        a.set('ID', new_id)
    s = a.find(q(DS, 'Signature'))
    if s is not None:
        if sig == 'none':
            a.remove(s)
        elif sig in ('junk-own', 'junk-last'):
            for r in s.iter(q(DS, 'Reference')):
                r.set('URI', '#' + a.get('ID'))
            for e in list(s.iter(q(DS, 'SignatureValue'))) + list(s.iter(q(DS, 'DigestValue'))):
                e.text = 'anVuaw=='
            if sig == 'junk-last':
                a.remove(s)
                a.append(s)
        elif sig == 'copied':
            pass                     # verbatim: still references the genuine assertion's ID
    elif sig in ('junk-own', 'junk-last'):
        s = _junk_signature(a.get('ID'))
        if sig == 'junk-last':
            a.append(s)
        else:
            a.insert(1, s)
    return a, old_id


def _junk_signature(ident):
    s = ET.Element(q(DS, 'Signature'))
    si = ET.SubElement(s, q(DS, 'SignedInfo'))
    ET.SubElement(si, q(DS, 'CanonicalizationMethod'), {'Algorithm': 'http://www.w3.org/2001/10/xml-exc-c14n#'})
    ET.SubElement(si, q(DS, 'SignatureMethod'), {'Algorithm': 'http://www.w3.org/2000/09/xmldsig#rsa-sha1'})
    r = ET.SubElement(si, q(DS, 'Reference'), {'URI': '#' + ident})
    t = ET.SubElement(r, q(DS, 'Transforms'))
    ET.SubElement(t, q(DS, 'Transform'), {'Algorithm': 'http://www.w3.org/2000/09/xmldsig#enveloped-signature'})
    ET.SubElement(r, q(DS, 'DigestMethod'), {'Algorithm': 'http://www.w3.org/2000/09/xmldsig#sha1'})
    ET.SubElement(r, q(DS, 'DigestValue')).text = 'anVuaw=='
    ET.SubElement(s, q(DS, 'SignatureValue')).text = 'anVuaw=='
    return s


def _outer_response(root, new_id, park, junk_sig, evil):
    """a forged Response around the genuine one.  park: where the genuine Response goes ('extensions-first' | 'extensions-last' |
    'object'), junk_sig: the forged Response carries a junk Signature of its own referencing itself"""
    outer = ET.Element(root.tag, dict(root.attrib))
    if new_id:
        outer.set('ID', new_id)
    issuer = copy.deepcopy(root.find(q(SAML, 'Issuer')))
    status = copy.deepcopy(root.find(q(SAMLP, 'Status')))
    ext = ET.Element(q(SAMLP, 'Extensions'))
    ext.append(copy.deepcopy(root))
    parts = [issuer]
    if park == 'extensions-first':
        parts.append(ext)
    if junk_sig:
        parts.append(_junk_signature(outer.get('ID')))
    if park == 'object':
        genuine = copy.deepcopy(root)
        gsig = genuine.find(q(DS, 'Signature'))
        if gsig is None:
            return None
        genuine.remove(gsig)
        obj = ET.SubElement(gsig, q(DS, 'Object'))
        obj.append(genuine)
        parts.append(gsig)
    if park == 'extensions-last':
        parts.append(ext)
    parts.append(status)
    parts.append(evil)
    for p in parts:
        if p is not None:
            outer.append(p)
    return outer


def forgeries(xml, resign=None):
    """(name, forged xml) pairs derived from one genuine signed response"""
    root = ET.fromstring(xml.encode('utf-8'))
    assertion = root.find(q(SAML, 'Assertion'))
    out = []
    if assertion is None:
        return out

    def add(name, tree):
        if tree is not None:
            out.append((name, ET.tostring(tree, encoding='unicode')))
    # ---- plain edits of signed content
    r = copy.deepcopy(root)
    for v in r.iter(q(SAML, 'AttributeValue')):
        if v.text == 'derek@example.org':
            v.text = EVIL_VALUE
    add('edit-attribute-value', r)
    r = copy.deepcopy(root)
    for nid in r.iter(q(SAML, 'NameID')):
        nid.text = EVIL_SUBJECT
    add('edit-subject', r)
    # ---- the assertion replaced by a forged one, in every signature dress
    for dress in ('none', 'junk-own', 'junk-last', 'copied'):
        for new_id in (None, 'id-evil-assertion'):
            r = copy.deepcopy(root)
            a = r.find(q(SAML, 'Assertion'))
            evil, _ = _evil_copy(a, new_id, dress)
            idx = list(r).index(a)
            r.remove(a)
            r.insert(idx, evil)
            add('assertion-replaced[%s,%s]' % (dress, 'new-id' if new_id else 'same-id'), r)
            # ... with the genuine assertion kept elsewhere in the document so that a signature referencing it still digests
            for where in ('response-extensions', 'evil-advice-first', 'evil-signature-object'):
                r = copy.deepcopy(root)
                a = r.find(q(SAML, 'Assertion'))
                evil, _ = _evil_copy(a, new_id, dress)
                genuine = copy.deepcopy(a)
                idx = list(r).index(a)
                r.remove(a)
                if where == 'response-extensions':
                    ext = ET.Element(q(SAMLP, 'Extensions'))
                    ext.append(genuine)
                    r.insert(1, ext)
                elif where == 'evil-advice-first':
                    adv = ET.Element(q(SAML, 'Advice'))
                    adv.append(genuine)
                    evil.insert(1, adv)         # before any Signature child of the forged assertion
                else:
                    s = evil.find(q(DS, 'Signature'))
                    if s is None:
                        continue
                    ET.SubElement(s, q(DS, 'Object')).append(genuine)
                r.insert(min(idx, len(r)), evil) if where != 'response-extensions' else r.append(evil)
                add('assertion-wrapped[%s,%s,%s]' % (dress, 'new-id' if new_id else 'same-id', where), r)
    # ---- two Signature children on the forged assertion: the tool takes the first, the library keeps the last
    for new_id in (None, 'id-evil-assertion'):
        r = copy.deepcopy(root)
        a = r.find(q(SAML, 'Assertion'))
        gsig = a.find(q(DS, 'Signature'))
        if gsig is not None:
            evil, _ = _evil_copy(a, new_id, 'junk-last')
            first = copy.deepcopy(gsig)
            ET.SubElement(first, q(DS, 'Object')).append(copy.deepcopy(a))
            evil.insert(1, first)
            idx = list(r).index(a)
            r.remove(a)
            r.insert(idx, evil)
            add('assertion-two-signatures[%s]' % ('new-id' if new_id else 'same-id'), r)
    # ---- the assertion's signature moved up to the Response (which then looks signed)
    r = copy.deepcopy(root)
    a = r.find(q(SAML, 'Assertion'))
    s = a.find(q(DS, 'Signature'))
    if s is not None and r.find(q(DS, 'Signature')) is None:
        a.remove(s)
        r.insert(1, s)
        st = r.find(q(SAMLP, 'Status'))
        evil, _ = _evil_copy(a, 'id-evil-assertion', 'none')
        r.append(evil)
        add('signature-relocated-to-response', r)
    # ---- (C03) the assertion claims another identity provider as its issuer but is signed with the key of the one that sent it
    if resign is not None:
        r = copy.deepcopy(root)
        a = r.find(q(SAML, 'Assertion'))
        s_el = a.find(q(DS, 'Signature'))
        iss = a.find(q(SAML, 'Issuer'))
        if s_el is not None and iss is not None and r.find(q(DS, 'Signature')) is None:
            iss.text = FOREIGN_ISSUER
            resign(r, a, s_el)
            add('foreign-issuer-signed-by-the-sender', r)
    # ---- a forged Response around the genuine one
    for park in ('extensions-first', 'extensions-last', 'object'):
        for new_id in (None, 'id-evil-response'):
            for junk in (True, False):
                for dress in ('none', 'junk-own', 'junk-last'):
                    evil, _ = _evil_copy(assertion, 'id-evil-assertion', dress)
                    add('response-wrapped[%s,%s,%s,%s]' % (park, 'new-id' if new_id else 'same-id', 'junk-signature' if junk else 'no-signature', dress),
                        _outer_response(root, new_id, park, junk, evil))
    return out


XENC = 'http://www.w3.org/2001/04/xmlenc#'


def open_encrypted(xml):
    """(plain response xml, EncryptedData template, key identity) of a response whose assertion the stand-in tool encrypted"""
    root = ET.fromstring(xml.encode('utf-8'))
    ea = root.find(q(SAML, 'EncryptedAssertion'))
    if ea is None:
        return None
    ed = ea.find(q(XENC, 'EncryptedData'))
    cv = list(ed.iter(q(XENC, 'CipherValue')))[-1]
    kid, _, clear = base64.b64decode(cv.text.strip()).partition(b'\n')
    idx = list(root).index(ea)
    root.remove(ea)
    root.insert(idx, ET.fromstring(clear))
    return ET.tostring(root, encoding='unicode'), ed, kid


def reencrypt(xml, template, kid):
    """every Assertion directly under the outermost Response goes back into an EncryptedAssertion for the same key"""
    root = ET.fromstring(xml.encode('utf-8'))
    for a in [c for c in list(root) if c.tag == q(SAML, 'Assertion')]:
        ed = copy.deepcopy(template)
        list(ed.iter(q(XENC, 'CipherValue')))[-1].text = base64.b64encode(kid + b'\n' + ET.tostring(a, encoding='utf-8')).decode('ascii')
        ea = ET.Element(q(SAML, 'EncryptedAssertion'))
        ea.append(ed)
        idx = list(root).index(a)
        root.remove(a)
        root.insert(idx, ea)
    return ET.tostring(root, encoding='unicode')


def run(tier, seed):
    from pyvc import front     # noqa
    logging.disable(logging.CRITICAL)
    from bounded._standin_env import Env, SP_ID, SSO, ACS
    from saml2_tophat import saml
    from saml2_tophat.authn_context import PASSWORDPROTECTEDTRANSPORT
    violations, n, accepted_genuine, rejected, helper_cases = [], 0, 0, 0, 0
    names = set()
    from saml2_tophat import sigver
    from bounded import xmlsec1_standin as tool
    helper = getattr(sigver, 'signature_is_enveloped', None)
    import hashlib

    def make_resign(kid):
        def resign(doc_root, elem, sig):
            # what the stand-in tool's --sign does, for the sending IdP's key
            digest = tool.digest_of(elem, sig)
            for dv in sig.iter(q(DS, 'DigestValue')):
                dv.text = digest
            for sv in sig.iter(q(DS, 'SignatureValue')):
                sv.text = hashlib.sha256((kid + ':' + digest).encode()).hexdigest()
        return resign
    with Env() as env:
        for sign_resp, sign_ass, encrypted in ((True, False, False), (False, True, False), (True, True, False),
                                               (False, True, True), (True, True, True)):
            for want_resp, want_ass in ((True, False), (False, True), (True, True)):
                if (want_resp and not sign_resp) or (want_ass and not sign_ass):
                    continue        # the genuine message itself would not meet the requirement
                sp = env.sp_for('sp', want_resp, want_ass)

                def genuine():
                    rid, _req = sp.create_authn_request(SSO, binding=env.POST)
                    name_id = saml.NameID(format=saml.NAMEID_FORMAT_PERSISTENT, text='derek-subject', sp_name_qualifier=SP_ID)
                    resp = env.idp.create_authn_response(identity=dict((k, list(v)) for k, v in GOOD.items()), in_response_to=rid,
                                                         destination=ACS, sp_entity_id=SP_ID, name_id=name_id, userid='user-1',
                                                         authn={'class_ref': PASSWORDPROTECTEDTRANSPORT, 'authn_auth': 'https://idp.example.org/'},
                                                         sign_response=sign_resp, sign_assertion=sign_ass,
                                                         encrypt_assertion=encrypted)
                    return rid, (resp if isinstance(resp, str) else str(resp))

                def read(xml, rid):
                    try:
                        ar = sp.parse_authn_request_response(base64.b64encode(xml.encode('utf-8')).decode('ascii'), env.POST, {rid: '/'})
                    except Exception as e:
                        return None, repr(e)
                    if ar is None:
                        return None, 'no response object'
                    return (ar.ava, getattr(ar.name_id, 'text', None)), None
                label = 'IdP signs response=%s assertion=%s%s; SP wants response=%s assertions=%s' % (
                    sign_resp, sign_ass, ', assertion encrypted' if encrypted else '', want_resp, want_ass)
                try:
                    rid, xml = genuine()
                except Exception as e:
                    violations.append({'name': 'bounded[wrap-table:genuine]', 'case': label, 'what': 'the IdP could not build the response: %r' % (e,)})
                    continue
                got, err = read(xml, rid)
                n += 1
                if got is None or got[0] != GOOD or got[1] != 'derek-subject':
                    violations.append({'name': 'bounded[wrap-table:genuine]', 'case': label,
                                       'what': 'the genuine signed response was not read as asserted: %r %r' % (got, err)})
                    continue
                accepted_genuine += 1
                if encrypted:
                    # the rearrangements are made inside the ciphertext: open it, forge, encrypt every top-level assertion again
                    opened = open_encrypted(xml)
                    if opened is None:
                        violations.append({'name': 'bounded[wrap-table:genuine]', 'case': label, 'what': 'no EncryptedAssertion in the response'})
                        continue
                    plain, template, kid = opened
                    import os as _os
                    from bounded._standin_env import PAIRS
                    skid = env.key_table[_os.path.join(env.keys, PAIRS['idp'][0])]
                    candidates = [('genuine', xml)] + [(nm + '+encrypted', reencrypt(f, template, kid))
                                                       for nm, f in forgeries(plain, make_resign(skid))]
                else:
                    import os as _os
                    from bounded._standin_env import PAIRS
                    kid = env.key_table[_os.path.join(env.keys, PAIRS['idp'][0])]
                    candidates = [('genuine', xml)] + forgeries(xml, make_resign(kid))
                for name, forged in candidates:
                    # the library's structural helper against an independent reading of the same document, for every ID in it
                    if helper is not None:
                        doc = ET.fromstring(forged.encode('utf-8'))
                        for ident in sorted(set(e.get('ID') for e in doc.iter() if e.get('ID'))) + ['id-nowhere']:
                            helper_cases += 1
                            nodes = tool.find_by_id(doc, ident)
                            own = [c for c in list(nodes[0]) if c.tag == q(DS, 'Signature')] if len(nodes) == 1 else []
                            want = len(nodes) == 1 and len(own) == 1 and tool.first_signature(nodes[0]) is own[0]
                            try:
                                got = helper(forged, ident, 'ID')
                            except Exception as e:
                                got = 'raised %r' % (e,)
                            if got is not want:
                                violations.append({'name': 'bounded[wrap-table:helper]', 'case': '%s; document %s; ID %s' % (label, name, ident),
                                                   'what': 'signature_is_enveloped answers %r; exactly one element with the ID, exactly one Signature '
                                                           'child, and that child the first Signature under the element: %r' % (got, want)})
                    if name == 'genuine':
                        continue
                    names.add(name)
                    n += 1
                    got, err = read(forged, rid)
                    if got is None:
                        rejected += 1
                        continue
                    ava, subject = got
                    if name.startswith('foreign-issuer'):
                        violations.append({'name': 'bounded[wrap-table:foreign-issuer]', 'case': '%s; forgery %s' % (label, name),
                                           'what': 'an assertion naming %s as its issuer, signed with the key of the identity provider that sent the '
                                                   'response, was accepted (subject %r): a signature is to be trusted only under its issuer\'s keys'
                                                   % (FOREIGN_ISSUER, subject), 'input': forged[:20000]})
                        continue
                    if EVIL_VALUE in str(ava) or subject == EVIL_SUBJECT or ava != GOOD or subject != 'derek-subject':
                        violations.append({'name': 'bounded[wrap-table:%s]' % name.split('[')[0], 'case': '%s; forgery %s' % (label, name),
                                           'what': 'a rearranged copy of a validly signed response was accepted with subject %r and attributes %r '
                                                   '(the signed response asserts subject %r and %r)' % (subject, ava, 'derek-subject', GOOD),
                                           'input': forged if len(forged) < 20000 else forged[:20000]})
        # ---- (C03) PEFIM layout: the attribute assertion travels encrypted in the Advice of the outer assertion and is verified, after
        #      decryption, with the outer issuer as a hint.  Control: inner assertion issued and signed by the sender.  Forgery: the
        #      inner assertion names the OTHER identity provider as issuer but carries a signature made with the sender's key.
        import os as _os
        from bounded._standin_env import PAIRS as _PAIRS
        sender_kid = env.key_table[_os.path.join(env.keys, _PAIRS['idp'][0])]
        sp = env.sp_for('sp', False, False)
        for foreign in (False, True):
            n += 1
            label = 'PEFIM advice assertion, signed by the sender, issuer %s' % ('the OTHER identity provider' if foreign else 'the sender (control)')
            try:
                rid, _req = sp.create_authn_request(SSO, binding=env.POST)
                name_id = saml.NameID(format=saml.NAMEID_FORMAT_PERSISTENT, text='derek-subject', sp_name_qualifier=SP_ID)
                resp = env.idp.create_authn_response(identity=dict((k, list(v)) for k, v in GOOD.items()), in_response_to=rid, destination=ACS,
                                                     sp_entity_id=SP_ID, name_id=name_id, userid='user-1', pefim=True,
                                                     authn={'class_ref': PASSWORDPROTECTEDTRANSPORT, 'authn_auth': 'https://idp.example.org/'},
                                                     sign_response=False, sign_assertion=False)
                root = ET.fromstring((resp if isinstance(resp, str) else str(resp)).encode('utf-8'))
                ed = root.find('%s/%s/%s/%s' % (q(SAML, 'Assertion'), q(SAML, 'Advice'), q(SAML, 'EncryptedAssertion'), q(XENC, 'EncryptedData')))
                cv = list(ed.iter(q(XENC, 'CipherValue')))[-1]
                kid, _, clear = base64.b64decode(cv.text.strip()).partition(b'\n')
                inner = ET.fromstring(clear)
                if foreign:
                    iss = inner.find(q(SAML, 'Issuer'))
                    if iss is None:             # the attribute assertion is built without an Issuer of its own
                        iss = ET.Element(q(SAML, 'Issuer'))
                        inner.insert(0, iss)
                    iss.text = FOREIGN_ISSUER
                if inner.find(q(DS, 'Signature')) is None:
                    inner.insert(1 if inner.find(q(SAML, 'Issuer')) is not None else 0, _junk_signature(inner.get('ID')))
                make_resign(sender_kid)(inner, inner, inner.find(q(DS, 'Signature')))
                cv.text = base64.b64encode(kid + b'\n' + ET.tostring(inner, encoding='utf-8')).decode('ascii')
                forged = ET.tostring(root, encoding='unicode')
            except Exception as e:
                violations.append({'name': 'bounded[wrap-table:genuine]', 'case': label, 'what': 'could not prepare the message: %r' % (e,)})
                continue
            try:
                ar = sp.parse_authn_request_response(base64.b64encode(forged.encode('utf-8')).decode('ascii'), env.POST, {rid: '/'})
                ava = getattr(ar, 'ava', None)
            except Exception as e:
                ar, ava = None, repr(e)[:200]
            if not foreign and (ar is None or ava != GOOD):
                violations.append({'name': 'bounded[wrap-table:genuine]', 'case': label,
                                   'what': 'the control (inner assertion issued and signed by the sender) was not read as asserted: %r' % (ava,)})
            if foreign and ar is not None and ava:
                violations.append({'name': 'bounded[wrap-table:foreign-issuer]', 'case': label,
                                   'what': 'attributes %r were read from an advice assertion that names %s as its issuer but is signed with the key of '
                                           'the identity provider that sent the response' % (ava, FOREIGN_ISSUER), 'input': forged[:20000]})
            elif foreign:
                rejected += 1
    return {'name': 'wrap_table', 'label': 'BOUNDED (signature-wrapping rearrangements of a signed response, with a stand-in for xmlsec1; not a proof)',
            'bound': '%d kinds of rearrangement (plain, and made inside the ciphertext of an encrypted assertion) x signing modes x the SP settings '
                     'each mode satisfies (response / assertions / both required); stand-in tool' % len(names),
            'evaluations': n, 'genuine_accepted': accepted_genuine, 'forgeries_rejected': rejected,
            'helper_cross_checks': helper_cases, 'violations': violations[:40]}
