"""BOUNDED companion of C20 (never counted as proved).  The deductive part of C20 treats ONE call of the tool wrapper with the tool's
outputs fully arbitrary (E-PROC); what a contract on one call cannot see is state that survives between calls (a reused output
file, a cached verdict).  Here the stand-in xmlsec1 executable (bounded/xmlsec1_standin.py, started by the unmodified backend)
is told to FAIL -- ordinary error exit, death by signal, silent exit 0 without result, garbage output, truncated output, an error
message that merely contains the word OK -- at
the first use of an operation and after one or two successful uses on the SAME SP / IdP object:

  SP    a failing --verify or --decrypt must end in rejection: no response object, no identity -- in particular not the identity
        of the message processed successfully just before;
  IdP   a failing --verify of a signed AuthnRequest must end in rejection of the request; a failing --sign or --encrypt must end in an error, never in a returned response (unsigned, in clear, or the previous one).

An "OK" that the tool gives wrongly is not a failure of the tool in the sense of C20 and is not simulated."""
import base64
import itertools
import json
import logging
import os
import warnings

warnings.simplefilter('ignore')
HOWS = ['exit1', 'killed', 'silent', 'garbage', 'truncated', 'ok-inside-text']
GOOD = {'givenName': ['Derek'], 'mail': ['derek@example.org']}


def run(tier, seed):
    from pyvc import front     # noqa
    logging.disable(logging.CRITICAL)
    from bounded._standin_env import Env, SP_ID, SSO, ACS
    from saml2_tophat import saml
    from saml2_tophat.authn_context import PASSWORDPROTECTEDTRANSPORT
    violations, n, unusable = [], 0, 0
    afters = [0, 1] if tier == 'quick' else [0, 1, 2]
    with Env() as env:
        ctl = os.path.join(env.tmp, 'fail.json')
        saved = os.environ.get('XMLSEC1_STANDIN_FAIL')
        os.environ['XMLSEC1_STANDIN_FAIL'] = ctl

        def arm(op, how, after):
            with open(ctl, 'w') as f:
                json.dump({'op': op, 'how': how, 'after': after, 'count': 0}, f)

        def disarm():
            if os.path.exists(ctl):
                os.unlink(ctl)

        def build(idp, sp, who, **kw):
            rid, _req = sp.create_authn_request(SSO, binding=env.POST)
            name_id = saml.NameID(format=saml.NAMEID_FORMAT_PERSISTENT, text='subject-of-%s' % who, sp_name_qualifier=SP_ID)
            identity = dict((k, ['%s-%s' % (who, v) for v in vals]) for k, vals in GOOD.items())
            resp = idp.create_authn_response(identity=identity, in_response_to=rid, destination=ACS, sp_entity_id=SP_ID, name_id=name_id,
                                             userid=who, authn={'class_ref': PASSWORDPROTECTEDTRANSPORT, 'authn_auth': 'https://idp.example.org/'},
                                             **kw)
            return rid, (resp if isinstance(resp, str) else str(resp))

        def read(sp, rid, xml):
            try:
                ar = sp.parse_authn_request_response(base64.b64encode(xml.encode('utf-8')).decode('ascii'), env.POST, {rid: '/'})
            except Exception as e:
                return None, repr(e)[:200]
            if ar is None:
                return None, 'no response object'
            return (getattr(ar.name_id, 'text', None), ar.ava), None
        try:
            # ------------------------------------------------------------------ SP side: --verify and --decrypt
            for op, kw in (('--verify', {'sign_response': True, 'sign_assertion': True}),
                           ('--decrypt', {'sign_response': False, 'sign_assertion': False, 'encrypt_assertion': True})):
                for how, after in itertools.product(HOWS, afters):
                    n += 1
                    label = 'SP: %s fails (%s) after %d successful use(s)' % (op, how, after)
                    sp = env.sp_for('sp', bool(kw.get('sign_response')), bool(kw.get('sign_assertion')), instance=n)
                    disarm()
                    try:
                        messages = [build(env.idp, sp, 'user%d' % i, **kw) for i in range(3)]
                    except Exception as e:
                        violations.append({'name': 'bounded[tool-failure:setup]', 'case': label, 'what': 'could not build the messages: %r' % (e,)})
                        continue
                    # the messages processed while the tool still works (one message may use the operation more than once)
                    arm(op, how, 10 ** 6)
                    for i in range(after):
                        got, err = read(sp, *messages[i])
                        if got is None:
                            violations.append({'name': 'bounded[tool-failure:setup]', 'case': label, 'what': 'a genuine message was rejected while '
                                               'the tool worked: %s' % err})
                    used = json.load(open(ctl)).get('count', 0)
                    arm(op, how, 0)
                    got, err = read(sp, *messages[after])
                    fired = json.load(open(ctl)).get('count', 0) > 0
                    disarm()
                    # a failed verification must reject the message; a failed decryption must not yield an identity (an empty
                    # response object is what the SP hands back for content it cannot open)
                    if got is not None and (op == '--verify' or got[0] or got[1]):
                        violations.append({'name': 'bounded[tool-failure:sp-accepts]', 'case': label,
                                           'what': 'the tool failed%s, yet the SP returned a response with subject %r and attributes %r '
                                                   '(%d use(s) of the operation had succeeded before on this SP)'
                                                   % ('' if fired else ' (it was never started)', got[0], got[1], used)})
            # ------------------------------------------------------------------ IdP side: --verify of a signed request
            from saml2_tophat import BINDING_HTTP_REDIRECT
            from saml2_tophat.s_utils import deflate_and_base64_encode
            sp = env.sp_for('sp', False, False)
            for how, after in itertools.product(HOWS, afters):
                n += 1
                label = 'IdP: --verify of a signed AuthnRequest fails (%s) after %d successful use(s)' % (how, after)
                disarm()
                try:
                    reqs = []
                    for i in range(after + 1):
                        rid, req = sp.create_authn_request(SSO, binding=env.POST, sign=True)
                        reqs.append((rid, deflate_and_base64_encode(str(req))))
                    for rid, enc in reqs[:after]:
                        ok = env.idp.parse_authn_request(enc, BINDING_HTTP_REDIRECT)
                        if ok is None or ok.message.id != rid:
                            raise ValueError('a genuine signed request was not accepted while the tool worked')
                except Exception as e:
                    violations.append({'name': 'bounded[tool-failure:setup]', 'case': label, 'what': 'setup failed: %r' % (e,)})
                    continue
                arm('--verify', how, 0)
                try:
                    got = env.idp.parse_authn_request(reqs[after][1], BINDING_HTTP_REDIRECT)
                except Exception:
                    got = None
                fired = json.load(open(ctl)).get('count', 0) > 0
                disarm()
                if got is not None:
                    violations.append({'name': 'bounded[tool-failure:idp-accepts-request]', 'case': label,
                                       'what': 'the tool failed%s, yet the IdP accepted the signed request %r' % ('' if fired else ' (it was never started)',
                                                                                                                  getattr(getattr(got, 'message', None), 'id', None))})
            # ------------------------------------------------------------------ IdP side: --sign and --encrypt
            for op, kw in (('--sign', {'sign_response': True, 'sign_assertion': True}),
                           ('--encrypt', {'sign_response': False, 'sign_assertion': False, 'encrypt_assertion': True}),
                           ('--encrypt', {'sign_response': False, 'sign_assertion': False, 'pefim': True})):
                for how, after in itertools.product(HOWS, afters):
                    n += 1
                    label = 'IdP: %s fails (%s) after %d successful message(s), options %r' % (op, how, after, sorted(kw))
                    sp = env.sp_for('sp', False, False)
                    disarm()
                    try:
                        for i in range(after):
                            build(env.idp, sp, 'user%d' % i, **kw)
                    except Exception as e:
                        violations.append({'name': 'bounded[tool-failure:setup]', 'case': label, 'what': 'could not build a message while the tool worked: %r' % (e,)})
                        continue
                    arm(op, how, 0)
                    try:
                        rid, xml = build(env.idp, sp, 'victim', **kw)
                    except Exception:
                        xml = None
                    fired = os.path.exists(ctl) and json.load(open(ctl)).get('count', 0) > 0
                    disarm()
                    if xml is not None and fired:
                        # what C20 rules out is a message handed back AS IF it were protected: a well-formed response that is
                        # unsigned / in clear, or somebody else's.  (Half a document written by a tool that then reports an error is
                        # handed on by sign_statement as it is -- unusable text, counted below, not judged.)
                        import xml.etree.ElementTree as ET
                        try:
                            root = ET.fromstring(xml.encode('utf-8'))
                        except ET.ParseError:
                            unusable += 1
                            continue
                        sigvals = [e.text for e in root.iter('{http://www.w3.org/2000/09/xmldsig#}SignatureValue')]
                        unsigned = op == '--sign' and (not sigvals or any(not (t or '').strip() for t in sigvals))
                        in_clear = op == '--encrypt' and ('victim-Derek' in xml or 'subject-of-victim' in xml)
                        other = 'subject-of-user' in xml or 'user0-' in xml or 'user1-' in xml
                        if unsigned or in_clear or other:
                            violations.append({'name': 'bounded[tool-failure:idp-emits]', 'case': label,
                                               'what': 'the tool failed, yet the IdP returned a well-formed response (%d bytes) that is %s'
                                                       % (len(xml), 'unsigned' if unsigned else 'in clear' if in_clear else 'the response of an earlier request')})
        finally:
            disarm()
            if saved is None:
                os.environ.pop('XMLSEC1_STANDIN_FAIL', None)
            else:
                os.environ['XMLSEC1_STANDIN_FAIL'] = saved
    return {'name': 'tool_failure', 'label': 'BOUNDED (failure modes of the stand-in tool walked through short histories on one SP / IdP object; not a proof)',
            'bound': '%d failure modes x %d history lengths x (verify, decrypt on the SP; request verification, sign, encrypt, encrypt-advice on the IdP)' % (len(HOWS), len(afters)),
            'evaluations': n, 'unusable_output_handed_on_not_judged': unusable, 'violations': violations[:30]}
