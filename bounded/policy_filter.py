"""BOUNDED stand-in for the C07 filter functions that are not verified deductively (never counted as proved):
assertion.filter_attribute_value_assertions, filter_on_attributes, Policy.filter / restrict and Assertion.apply_policy are
run natively on an enumerated space of identities x release policies x SP requirements; the C07 clauses are evaluated
at run time: released names and values are a subset of the identity, every released name is allowed by the applicable
restriction, every released value matches a configured pattern, and a MissingValue leaves the Assertion untouched."""
import copy
import itertools
import re
import sys
import warnings

warnings.simplefilter('ignore')

IDENT_ATTRS = [('givenName', ['Ann']), ('GIVENNAME', ['Bob', 'bob@example.org']), ('surName', ['Smith']),
               ('mail', ['a@example.org', 'b@evil.org']), ('eduPersonEntitlement', [u'st\xe5ff'])]
RESTRICTIONS = [None, {'givenname': None}, {'mail': ['.*@example\\.org$']}, {'givenname': None, 'mail': ['^a@']},
                {'surname': ['^X']}, {'unknown': None}]
REQUIREMENTS = [None,
                {'required': [{'name': 'urn:oid:2.5.4.42', 'friendly_name': 'givenName', 'name_format': None}], 'optional': []},
                {'required': [{'name': 'urn:oid:0.9.2342.19200300.100.1.3', 'friendly_name': 'mail', 'name_format': None}],
                 'optional': [{'name': 'urn:oid:2.5.4.4', 'friendly_name': 'surName', 'name_format': None}]},
                {'required': [{'name': 'x', 'friendly_name': 'displayName', 'name_format': None}], 'optional': []}]


class MD(object):
    def __init__(self, req, cats=()):
        self.req, self.cats = req, list(cats)

    def attribute_requirement(self, sp, index=None):
        return self.req

    def entity_categories(self, sp):
        return list(self.cats)


def run(tier, seed):
    from pyvc import front     # noqa
    from saml2_tophat import assertion
    from saml2_tophat.s_utils import MissingValue
    violations, n, distinct = [], 0, set()
    sizes = (1, 2) if tier == 'quick' else (1, 2, 3)
    idents = []
    for r in sizes:
        for combo in itertools.combinations(IDENT_ATTRS, r):
            idents.append(dict((k, list(v)) for k, v in combo))
    for ident in idents:
        for rest in RESTRICTIONS:
            # 1. the name/value filter on its own
            if rest is not None:
                n += 1
                compiled = dict((k, None if v is None else [re.compile(x) for x in v]) for k, v in rest.items())
                out = assertion.filter_attribute_value_assertions(copy.deepcopy(ident), compiled)
                for k, vals in out.items():
                    if k not in ident or k.lower() not in rest:
                        violations.append({'name': 'bounded[policy-filter]', 'what': 'attribute %r released by %r from %r' % (k, rest, ident)})
                    elif rest[k.lower()] is not None:
                        for v in vals:
                            if v not in ident[k] or not any(re.match(p, v) for p in rest[k.lower()]):
                                violations.append({'name': 'bounded[policy-filter]', 'what': 'value %r of %r released by %r' % (v, k, rest)})
                    elif sorted(vals) != sorted(ident[k]):
                        violations.append({'name': 'bounded[policy-filter]', 'what': 'name-only restriction changed the values of %r' % k})
                distinct.add(('filter', repr(sorted(ident)), repr(rest), repr(sorted(out))))
            # 2. the whole policy, through Assertion.apply_policy
            for req in REQUIREMENTS:
                n += 1
                conf = {'default': {}}
                if rest is not None:
                    conf['default']['attribute_restrictions'] = rest
                pol = assertion.Policy(conf)
                ast = assertion.Assertion(copy.deepcopy(ident))
                before = copy.deepcopy(dict(ast))
                try:
                    ava = ast.apply_policy('https://sp.example.org', pol, MD(req))
                    outcome = 'ok'
                except MissingValue:
                    outcome = 'missing'
                    if dict(ast) != before:
                        violations.append({'name': 'bounded[policy-filter]', 'what': 'MissingValue but the Assertion was modified: %r -> %r' % (before, dict(ast))})
                    distinct.add(('policy', repr(sorted(ident)), repr(rest), repr(req), outcome))
                    continue
                for k, vals in dict(ast).items():
                    if k not in ident:
                        violations.append({'name': 'bounded[policy-filter]', 'what': 'attribute %r not in the identity' % k})
                        continue
                    if rest is not None and k.lower() not in rest:
                        violations.append({'name': 'bounded[policy-filter]', 'what': 'attribute %r released although restrictions are %r' % (k, rest)})
                    if rest is not None and rest.get(k.lower()) is not None:
                        for v in vals:
                            if not any(re.match(p, v) for p in rest[k.lower()]):
                                violations.append({'name': 'bounded[policy-filter]', 'what': 'value %r of %r does not match %r' % (v, k, rest[k.lower()])})
                    for v in vals:
                        if v not in ident[k]:
                            violations.append({'name': 'bounded[policy-filter]', 'what': 'value %r of %r not in the identity' % (v, k)})
                    if req is not None:
                        asked = [a['friendly_name'].lower() for a in req['required'] + req['optional']]
                        if k.lower() not in asked:
                            violations.append({'name': 'bounded[policy-filter]', 'what': 'attribute %r released although the SP only declares %r' % (k, asked)})
                distinct.add(('policy', repr(sorted(ident)), repr(rest), repr(req), outcome, repr(sorted(dict(ast)))))
    # 3. SP declarations that the identity cannot satisfy, with fail_on_missing_requested switched off: the result is the
    #    policy-filtered best effort (possibly nothing), never the unfiltered identity
    for ident in idents:
        for rest in (None, {'mail': None}):
            for req in REQUIREMENTS[1:] + [{'required': [], 'optional': [{'name': 'x', 'friendly_name': 'displayName', 'name_format': None}]}]:
                n += 1
                conf = {'default': {'fail_on_missing_requested': False}}
                if rest is not None:
                    conf['default']['attribute_restrictions'] = rest
                ast = assertion.Assertion(copy.deepcopy(ident))
                try:
                    ast.apply_policy('https://sp.example.org', assertion.Policy(conf), MD(req))
                except MissingValue:
                    continue
                asked = [a['friendly_name'].lower() for a in req['required'] + req['optional']]
                for k, vals in dict(ast).items():
                    if k.lower() not in asked:
                        violations.append({'name': 'bounded[policy-filter]', 'what': 'fail_on_missing_requested=False: attribute %r released from %r although the SP '
                                           'only declares %r' % (k, sorted(ident), asked)})
                    if rest is not None and k.lower() not in rest:
                        violations.append({'name': 'bounded[policy-filter]', 'what': 'attribute %r released although restrictions are %r' % (k, rest)})
                    if k not in ident or any(v not in ident[k] for v in vals):
                        violations.append({'name': 'bounded[policy-filter]', 'what': 'attribute %r / values %r not in the identity' % (k, vals)})
                distinct.add(('besteffort', repr(sorted(ident)), repr(rest), repr(req), repr(sorted(dict(ast)))))
    # 5. a per-SP policy entry that only tunes an unrelated setting still inherits the restrictions of "default"
    for ident in idents:
        for rest in RESTRICTIONS[1:]:
            n += 1
            conf = {'default': {'attribute_restrictions': rest}, 'https://sp.example.org': {'lifetime': {'minutes': 5}},
                    'https://other.example.org': {'attribute_restrictions': None}}
            ast = assertion.Assertion(copy.deepcopy(ident))
            try:
                ast.apply_policy('https://sp.example.org', assertion.Policy(conf), MD(None))
            except MissingValue:
                continue
            for k, vals in dict(ast).items():
                if k.lower() not in rest:
                    violations.append({'name': 'bounded[policy-filter]', 'what': 'SP entry without restrictions of its own: attribute %r released although the '
                                       'default restrictions are %r' % (k, rest)})
                elif rest[k.lower()] is not None and any(not any(re.match(p, v) for p in rest[k.lower()]) for v in vals):
                    violations.append({'name': 'bounded[policy-filter]', 'what': 'SP entry without restrictions of its own: a value of %r does not match %r' % (k, rest[k.lower()])})
            distinct.add(('per-sp', repr(sorted(ident)), repr(rest), repr(sorted(dict(ast)))))
    # 4. entity categories: only what the categories the SP actually carries entitle it to (a combined rule needs ALL its categories)
    from saml2_tophat.entity_category import swamid
    ec_ident = {'givenName': ['Ann'], 'sn': ['Smith'], 'mail': ['a@example.org'], 'c': ['SE'], 'eduPersonTargetedID': ['tid'],
                'norEduPersonNIN': ['19'], 'displayName': ['Ann S'], 'uid': ['ann']}
    cat_sets = [[], [swamid.RESEARCH_AND_EDUCATION], [swamid.EU], [swamid.RESEARCH_AND_EDUCATION, swamid.EU], [swamid.RESEARCH_AND_SCHOLARSHIP],
                [swamid.SFS_1993_1153], [swamid.RESEARCH_AND_EDUCATION, swamid.SFS_1993_1153], [swamid.NREN, swamid.HEI]]
    for cats in cat_sets:
        for drop in [(), ('eduPersonTargetedID',), ('givenName', 'sn', 'mail', 'c', 'displayName')]:
            n += 1
            ident = dict((k, list(v)) for k, v in ec_ident.items() if k not in drop)
            allowed = set(a.lower() for a in swamid.RELEASE.get('', []))
            for key, attrs in swamid.RELEASE.items():
                if key == '':
                    continue
                if (isinstance(key, tuple) and all(k in cats for k in key)) or (not isinstance(key, tuple) and key in cats):
                    allowed |= set(a.lower() for a in attrs)
            ast = assertion.Assertion(copy.deepcopy(ident))
            try:
                ast.apply_policy('https://sp.example.org', assertion.Policy({'default': {'entity_categories': ['swamid']}}), MD(None, cats))
            except MissingValue:
                continue
            for k, vals in dict(ast).items():
                if k.lower() not in allowed:
                    violations.append({'name': 'bounded[policy-filter]', 'what': 'entity categories %r entitle the SP to %r, attribute %r was released'
                                       % ([c.rsplit('/', 1)[-1] for c in cats], sorted(allowed), k)})
                if k not in ident or any(v not in ident[k] for v in vals):
                    violations.append({'name': 'bounded[policy-filter]', 'what': 'attribute %r / values %r not in the identity' % (k, vals)})
            distinct.add(('ec', repr(cats), repr(drop), repr(sorted(dict(ast)))))
    return {'name': 'policy_filter', 'label': 'BOUNDED (C07 filter functions exercised natively; not a proof)',
            'bound': '%d identities (<= %d attributes from a pool of %d, case variants, multi-valued, non-ASCII) x %d restriction shapes x %d SP requirement shapes; the same identities x 2 restrictions x 4 unsatisfiable declarations with fail_on_missing_requested off; %d entity-category sets x 3 identities'
                     % (len(idents), max(sizes), len(IDENT_ATTRS), len(RESTRICTIONS), len(REQUIREMENTS), len(cat_sets)),
            'evaluations': n, 'distinct_outcomes': len(distinct), 'violations': violations}


if __name__ == '__main__':
    import json, os
    sys.path.insert(0, os.path.dirname(os.path.dirname(os.path.abspath(__file__))))
    r = run('quick', 0)
    print(json.dumps({k: v for k, v in r.items() if k != 'violations'}, indent=1))
    for v in r['violations'][:10]:
        print(v)
    print(len(r['violations']), 'violations')
