"""BOUNDED stand-in (never counted as proved) for the parts of C08 and C17 that are statements about what the IdP EMITS when it
signs and encrypts: an IdP (Server) and SPs (Saml2Client) are configured from each other's generated metadata and the real
Server.create_authn_response is run for every combination of sign_response x sign_assertion x encrypt_assertion x
{no advice, PEFIM advice (encrypted_advice_attributes)} x self-contained namespaces x where the encryption certificate comes
from (the SP's metadata / given per request / nowhere).

xmlsec1 is not installed.  The tool is replaced by bounded/xmlsec1_standin.py, run as a real child process by the unmodified
CryptoBackendXmlSec1 (so Entity._response, signed_instance_factory, SecurityContext, the backend's command building and
temporary files and, on the SP side, everything from Saml2Client.parse_authn_request_response down are the code of the
working tree).  The stand-in is not cryptography, but its signatures digest the referenced element INCLUDING nested
signatures and its ciphertexts open only for the key they were made for, so signing order, what is covered and who can
decrypt are observable.

Checked per case:
  C08  an SP whose signature requirements the combination satisfies accepts the response and reads the asserted subject,
       attributes, InResponseTo, issuer and authentication context;
  C17  (IdP side) when encryption of the assertion / of the advice assertion is asked for and the SP has an encryption
       certificate (in metadata or given), no subject identifier, attribute name or attribute value of that assertion occurs in
       the emitted text; the intended SP reads it; an SP configured with another key pair gets no identity from it."""
import base64
import itertools
import json
import logging
import os
import shutil
import stat
import sys
import tempfile
import warnings

warnings.simplefilter('ignore')

IDP_ID = 'https://idp.example.org/idp.xml'
SP_ID = 'https://sp.example.org/sp.xml'
SSO, ACS = 'https://idp.example.org/sso', 'https://sp.example.org/acs/post'
SECRET_VALUES = ['Zx-secret-value-Qv', u'K\xf6nigsberg-secret-<&>']
IDENTITY = {'givenName': [SECRET_VALUES[0]], 'sn': [SECRET_VALUES[1]], 'mail': ['Zx-secret-mail-Qv@example.org']}
SUBJECT = 'Zx-secret-subject-Qv'


def run(tier, seed):
    from pyvc import front     # noqa  (puts the working tree first on sys.path)
    logging.disable(logging.CRITICAL)
    import saml2_tophat.metadata as md_mod
    from saml2_tophat import BINDING_HTTP_POST, BINDING_HTTP_REDIRECT, saml
    from saml2_tophat.authn_context import PASSWORDPROTECTEDTRANSPORT
    from saml2_tophat.client import Saml2Client
    from saml2_tophat.config import IdPConfig, SPConfig
    from saml2_tophat.metadata import entity_descriptor
    from saml2_tophat.server import Server
    from bounded import xmlsec1_standin as tool
    keys = os.path.join(front.REPO, 'tests')
    here = os.path.dirname(os.path.abspath(__file__))
    out = os.path.join(os.path.dirname(here), 'out')
    tmp = tempfile.mkdtemp(prefix='pyvc_issue_', dir=out if os.path.isdir(out) else None)
    violations, n, unsupported = [], 0, 0
    saved_env = os.environ.get('XMLSEC1_STANDIN_KEYS')
    try:
        binary = os.path.join(here, 'xmlsec1')       # committed wrapper script: runs xmlsec1_standin.py
        saved_py = os.environ.get('XMLSEC1_STANDIN_PYTHON')
        os.environ['XMLSEC1_STANDIN_PYTHON'] = sys.executable
        pairs = {'idp': ('test.key', 'test.pem'), 'sp': ('test_1.key', 'test_1.crt'), 'other': ('test_2.key', 'test_2.crt')}
        os.environ['XMLSEC1_STANDIN_KEYS'] = json.dumps(dict(
            (os.path.join(keys, k), tool.cert_identity(os.path.join(keys, c))) for k, c in pairs.values()))

        def pem_body(name):
            txt = open(os.path.join(keys, pairs[name][1])).read()
            return ''.join(l for l in txt.splitlines() if l and not l.startswith('-----'))

        def idp_conf(md):
            return {'entityid': IDP_ID,
                    'service': {'idp': {'endpoints': {'single_sign_on_service': [(SSO, BINDING_HTTP_REDIRECT)]},
                                        'policy': {'default': {'lifetime': {'minutes': 15}, 'attribute_restrictions': None,
                                                               'name_form': saml.NAME_FORMAT_URI}},
                                        'subject_data': os.path.join(tmp, 'subject.db')}},
                    'key_file': os.path.join(keys, pairs['idp'][0]), 'cert_file': os.path.join(keys, pairs['idp'][1]),
                    'xmlsec_binary': binary, 'metadata': md}

        def sp_conf(md, pair, want_resp, want_ass, publish_enc=True):
            conf = {'entityid': SP_ID,
                    'service': {'sp': {'endpoints': {'assertion_consumer_service': [(ACS, BINDING_HTTP_POST)]},
                                       'want_response_signed': want_resp, 'want_assertions_signed': want_ass,
                                       'allow_unsolicited': False}},
                    'key_file': os.path.join(keys, pairs[pair][0]), 'cert_file': os.path.join(keys, pairs[pair][1]),
                    'xmlsec_binary': binary, 'metadata': md}
            if publish_enc:
                conf['encryption_keypairs'] = [{'key_file': os.path.join(keys, pairs[pair][0]),
                                                'cert_file': os.path.join(keys, pairs[pair][1])}]
            return conf
        idp_md = str(entity_descriptor(IdPConfig().load(idp_conf({}), metadata_construction=True)))
        sp_md = {True: str(entity_descriptor(SPConfig().load(sp_conf({}, 'sp', False, False, True), metadata_construction=True))),
                 False: None}
        # an SP that publishes no encryption certificate: drop the encryption KeyDescriptor from the generated metadata
        import re
        sp_md[False] = re.sub(r'<(\w+:)?KeyDescriptor use="encryption">.*?</(\w+:)?KeyDescriptor>', '', sp_md[True], flags=re.S)
        if sp_md[False] == sp_md[True] or 'use="encryption"' not in sp_md[True]:
            # metadata generation wrote the key without a use: then every published key is usable for encryption
            sp_md[False] = None
        # an SP that publishes TWO encryption certificates (key rollover); the test certificates of the repository are long expired,
        # which the library does not hold against them
        two = sp_conf({}, 'sp', False, False, True)
        two['encryption_keypairs'].append({'key_file': os.path.join(keys, pairs['other'][0]), 'cert_file': os.path.join(keys, pairs['other'][1])})
        sp_md['two'] = str(entity_descriptor(SPConfig().load(two, metadata_construction=True)))
        idps = {}
        for published in (True, False, 'two'):
            if sp_md[published] is not None:
                if os.path.exists(os.path.join(tmp, 'subject.db')):
                    pass
                conf = idp_conf({'inline': [sp_md[published]]})
                conf['service']['idp']['subject_data'] = os.path.join(tmp, 'subject_%s.db' % published)
                idps[published] = Server(config=IdPConfig().load(conf))
        sps = {}

        def sp_for(pair, want_resp, want_ass):
            k = (pair, want_resp, want_ass)
            if k not in sps:
                sps[k] = Saml2Client(config=SPConfig().load(sp_conf({'inline': [idp_md]}, pair, want_resp, want_ass)))
            return sps[k]
        flags = [False, True]
        self_contained = [True] if tier == 'quick' else [True, False]
        grid = itertools.product(flags, flags, flags, ['none', 'advice', 'pefim'], self_contained,
                                 ['metadata', 'metadata-two-certificates', 'given', 'nowhere'])
        for sign_resp, sign_ass, enc_ass, advice, selfc, cert_from in grid:
            published = 'two' if cert_from == 'metadata-two-certificates' else cert_from == 'metadata'
            if published not in idps:
                continue
            idp = idps[published]
            n += 1
            label = ('sign_response=%s sign_assertion=%s encrypt_assertion=%s advice=%s self_contained=%s certificate=%s'
                     % (sign_resp, sign_ass, enc_ass, advice, selfc, cert_from))
            kw = {}
            if cert_from == 'given':
                kw = {'encrypt_cert_assertion': pem_body('sp'), 'encrypt_cert_advice': pem_body('sp')}
            if advice == 'advice':
                kw['encrypted_advice_attributes'] = True
            elif advice == 'pefim':
                kw['pefim'] = True
            sp = sp_for('sp', sign_resp, sign_ass and advice != 'pefim')
            try:
                rid, _req = sp.create_authn_request(SSO, binding=BINDING_HTTP_POST)
                name_id = saml.NameID(format=saml.NAMEID_FORMAT_PERSISTENT, text=SUBJECT, sp_name_qualifier=SP_ID)
                resp = idp.create_authn_response(identity=dict((k, list(v)) for k, v in IDENTITY.items()), in_response_to=rid,
                                                 destination=ACS, sp_entity_id=SP_ID, name_id=name_id, userid='user-1',
                                                 authn={'class_ref': PASSWORDPROTECTEDTRANSPORT, 'authn_auth': 'https://idp.example.org/'},
                                                 sign_response=sign_resp, sign_assertion=sign_ass, encrypt_assertion=enc_ass,
                                                 encrypt_assertion_self_contained=selfc, **kw)
                xml = resp if isinstance(resp, str) else str(resp)
            except Exception as e:
                violations.append({'name': 'bounded[issue-roundtrip:build]', 'case': label,
                                   'what': 'the IdP could not build the response: %r' % (e,)})
                continue
            has_cert = cert_from in ('metadata', 'metadata-two-certificates', 'given')
            # ---- C17, IdP side: nothing of an assertion that was to be encrypted is readable in the emitted text
            if has_cert and enc_ass:
                leaked = [s for s in [SUBJECT] + [v for vals in IDENTITY.values() for v in vals] if _occurs(s, xml)] + \
                         [s for s in IDENTITY if _occurs(s, xml, name=True)]
                if leaked or _clear_assertions(xml):
                    violations.append({'name': 'bounded[issue-roundtrip:confidential-assertion]', 'case': label,
                                       'what': 'encryption of the assertion was asked for and the SP has a certificate, yet the emitted '
                                               'response shows %r in clear (clear Assertion elements under Response: %d)'
                                               % (leaked[:4], _clear_assertions(xml))})
            elif has_cert and advice == 'pefim':
                # PEFIM: the attributes travel in the single advice assertion, which is the one to encrypt
                leaked = [s for s in [v for vals in IDENTITY.values() for v in vals] if _occurs(s, xml)]
                if leaked:
                    violations.append({'name': 'bounded[issue-roundtrip:confidential-advice]', 'case': label,
                                       'what': 'encryption of the advice assertion was asked for and the SP has a certificate, yet the '
                                               'attribute values %r are readable in the emitted response' % (leaked[:4],)})
            # ---- C08: the SP whose requirements this combination satisfies accepts it and reads what was asserted
            if enc_ass and not has_cert and sign_ass:
                # not a supported combination (encryption asked for an SP without any certificate): the IdP then sends the
                # assertion neither encrypted nor signed although sign_assertion was set -- an observation, outside the statement
                unsupported += 1
                continue
            try:
                ar = sp.parse_authn_request_response(base64.b64encode(xml.encode('utf-8')).decode('ascii'), BINDING_HTTP_POST, {rid: '/'})
            except Exception as e:
                violations.append({'name': 'bounded[issue-roundtrip:accepted]', 'case': label, 'what': 'the SP rejected the response: %r' % (e,)})
                continue
            if ar is None:
                violations.append({'name': 'bounded[issue-roundtrip:accepted]', 'case': label, 'what': 'the SP returned no response object'})
                continue
            problems = []
            want = dict((k, [v.strip() for v in vals]) for k, vals in IDENTITY.items())
            if ar.ava != want:
                problems.append('attributes read %r, asserted %r' % (ar.ava, want))
            if ar.name_id is None or ar.name_id.text != SUBJECT:
                problems.append('subject read %r, asserted %r' % (getattr(ar.name_id, 'text', None), SUBJECT))
            if ar.in_response_to != rid:
                problems.append('InResponseTo read %r, sent %r' % (ar.in_response_to, rid))
            try:
                iss = ar.issuer()
            except Exception as e:
                iss = 'error %r' % (e,)
            if iss != IDP_ID:
                problems.append('issuer read %r' % (iss,))
            try:
                info = ar.authn_info()
            except Exception as e:
                info = 'error %r' % (e,)
            if not info or isinstance(info, str) or info[0][0] != PASSWORDPROTECTEDTRANSPORT:
                problems.append('authentication context read %r' % (info,))
            for pb in problems:
                violations.append({'name': 'bounded[issue-roundtrip:identity]', 'case': label, 'what': pb})
            # ---- C17: another configured key pair does not open it
            if has_cert and (enc_ass or advice == 'pefim'):
                other = sp_for('other', sign_resp, sign_ass and advice != 'pefim')
                try:
                    other.parse_authn_request_response(base64.b64encode(xml.encode('utf-8')).decode('ascii'), BINDING_HTTP_POST, {rid: '/'})
                    got = None
                except Exception:
                    got = 'rejected'
                if got is None:
                    ar2 = other.parse_authn_request_response(base64.b64encode(xml.encode('utf-8')).decode('ascii'), BINDING_HTTP_POST, {rid: '/'})
                    ava2 = getattr(ar2, 'ava', None)
                    if ava2 and (enc_ass or any(v in str(ava2) for v in SECRET_VALUES)):
                        violations.append({'name': 'bounded[issue-roundtrip:only-the-intended-key]', 'case': label,
                                           'what': 'an SP holding a different key pair read %r from a response encrypted for another key' % (ava2,)})
        for idp in idps.values():
            try:
                idp.ident.close()
            except Exception:
                pass
    finally:
        if 'saved_py' in locals():
            if saved_py is None:
                os.environ.pop('XMLSEC1_STANDIN_PYTHON', None)
            else:
                os.environ['XMLSEC1_STANDIN_PYTHON'] = saved_py
        if saved_env is None:
            os.environ.pop('XMLSEC1_STANDIN_KEYS', None)
        else:
            os.environ['XMLSEC1_STANDIN_KEYS'] = saved_env
        shutil.rmtree(tmp, ignore_errors=True)
    return {'name': 'issue_roundtrip',
            'label': 'BOUNDED (IdP signing / encryption combinations read back by the SP, with a stand-in for xmlsec1; not a proof)',
            'bound': '2 sign_response x 2 sign_assertion x 2 encrypt_assertion x 3 advice modes x %d self-contained settings x 4 certificate '
                     'sources, one identity; stand-in tool, not xmlsec1' % len(self_contained),
            'evaluations': n, 'unsupported_combinations_not_judged': unsupported, 'violations': violations[:30]}


OPAQUE = ('CipherValue', 'X509Certificate', 'SignatureValue', 'DigestValue', 'Modulus', 'Exponent')


def _clear_strings(xml):
    """every text node and attribute value of the emitted message, except the base64 payloads (ciphertext, certificates,
    signature and digest values) in which any short string may occur by chance"""
    import xml.etree.ElementTree as ET
    try:
        root = ET.fromstring(xml.encode('utf-8'))
    except ET.ParseError:
        return [xml], [xml]
    texts, attrs = [], []
    for e in root.iter():
        if e.tag.rsplit('}', 1)[-1] in OPAQUE:
            continue
        if e.text and e.text.strip():
            texts.append(e.text)
        if e.tail and e.tail.strip():
            texts.append(e.tail)
        attrs.extend(e.attrib.values())
    return texts, attrs


def _occurs(s, xml, name=False):
    texts, attrs = _clear_strings(xml)
    if name:                        # an attribute name is looked for as a whole XML attribute value (Name / FriendlyName)
        return any(a == s for a in attrs)
    return any(s in t for t in texts + attrs)


def _clear_assertions(xml):
    import xml.etree.ElementTree as ET
    try:
        root = ET.fromstring(xml.encode('utf-8'))
    except ET.ParseError:
        return -1
    return len(root.findall('{urn:oasis:names:tc:SAML:2.0:assertion}Assertion'))
