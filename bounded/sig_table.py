"""BOUNDED stand-in for the part of C02 / C17 that rests on the ASSUMED contract of AuthnResponse.parse_assertion (never counted
as proved): the finite table of the C02 statement is walked through the real Saml2Client.parse_authn_request_response --
8 settings of (want_response_signed, want_assertions_signed, want_assertions_or_response_signed) x response signature
{absent, valid, corrupted} x assertion signature {absent, valid, corrupted} x {plain, encrypted assertion} -- and
accept / reject is compared with the rule of the statement.  For C17 the validity-window / audience / recipient /
solicitation mutations are applied to an assertion sent in clear and to the same assertion sent encrypted (the verdict
must be the same: reject), and content no key decrypts must not yield an identity.

xmlsec1 is not installed: only the two lowest methods of the tool backend are replaced (CryptoBackendXmlSec1.
validate_signature and .decrypt, E-XMLSEC): a signature "verifies" iff the SignatureValue of the ds:Signature child of
the element with the requested ID is the token GOOD; "encryption" is base64 of the assertion inside xenc:CipherValue, the
token NOKEY marks content that no configured key decrypts.  Everything above that (SecurityContext, StatusResponse /
AuthnResponse, Entity._parse_response, Saml2Client) is the code of the working tree."""
import base64
import itertools
import logging
import re
import sys
import warnings
import xml.etree.ElementTree as ET

warnings.simplefilter('ignore')

IDP = 'urn:example:pyvc:idp'
SP = 'urn:example:pyvc:sp'
ACS = 'https://sp.example.org/acs'
CERT = ('MIICsDCCAhmgAwIBAgIJAJrzqSSwmDY9MA0GCSqGSIb3DQEBBQUAMEUxCzAJBgNVBAYTAkFVMRMwEQYDVQQIEwpTb21lLVN0YXRlMSEwHwYDVQQKExhJ'
        'bnRlcm5ldCBXaWRnaXRzIFB0eSBMdGQwHhcNMDkxMDA2MTk0OTQxWhcNMDkxMTA1MTk0OTQxWjBFMQswCQYDVQQGEwJBVTETMBEGA1UECBMKU29tZS1T'
        'dGF0ZTEhMB8GA1UEChMYSW50ZXJuZXQgV2lkZ2l0cyBQdHkgTHRkMIGfMA0GCSqGSIb3DQEBAQUAA4GNADCBiQKBgQDJg2cms7MqjniT8Fi/XkNHZNPb'
        'NVQyMUMXE9tXOdqwYCA1cc8vQdzkihscQMXy3iPw2cMggBu6gjMTOSOxECkuvX5ZCclKr8pXAJM5cY6gVOaVO2PdTZcvDBKGbiaNefiEw5hnoZomqZGp'
        '8wHNLAUkwtH9vjqqvxyS/vclc6k2ewIDAQABo4GnMIGkMB0GA1UdDgQWBBRePsKHKYJsiojE78ZWXccK9K4aJTB1BgNVHSMEbjBsgBRePsKHKYJsiojE'
        '78ZWXccK9K4aJaFJpEcwRTELMAkGA1UEBhMCQVUxEzARBgNVBAgTClNvbWUtU3RhdGUxITAfBgNVBAoTGEludGVybmV0IFdpZGdpdHMgUHR5IEx0ZIIJ'
        'AJrzqSSwmDY9MAwGA1UdEwQFMAMBAf8wDQYJKoZIhvcNAQEFBQADgYEAJSrKOEzHO7TL5cy6h3qh+3+JAk8HbGBW+cbX6KBCAw/mzU8flK25vnWwXS3d'
        'v2FF3Aod0/S7AWNfKib5U/SA9nJaz/mWeF9S0farz9AQFc8/NSzAzaVq7YbM4F6f6N2FRl7GikdXRCed45j6mrPzGzk3ECbupFnqyREH3+ZPSdk=')
IDP_METADATA = ('<?xml version="1.0"?><md:EntityDescriptor xmlns:md="urn:oasis:names:tc:SAML:2.0:metadata" '
                'xmlns:ds="http://www.w3.org/2000/09/xmldsig#" entityID="%s"><md:IDPSSODescriptor '
                'protocolSupportEnumeration="urn:oasis:names:tc:SAML:2.0:protocol"><md:KeyDescriptor use="signing"><ds:KeyInfo>'
                '<ds:X509Data><ds:X509Certificate>%s</ds:X509Certificate></ds:X509Data></ds:KeyInfo></md:KeyDescriptor>'
                '<md:SingleSignOnService Binding="urn:oasis:names:tc:SAML:2.0:bindings:HTTP-Redirect" '
                'Location="https://idp.example.org/sso"/></md:IDPSSODescriptor></md:EntityDescriptor>' % (IDP, CERT))
DS_NS = 'http://www.w3.org/2000/09/xmldsig#'
ENC_RE = re.compile(r'<(?:\w+:)?EncryptedData\b.*?<(?:\w+:)?CipherValue[^>]*>([^<]*)</(?:\w+:)?CipherValue>.*?</(?:\w+:)?EncryptedData>', re.S)
SIGNAME = {None: 'absent', True: 'valid', False: 'corrupted'}


def run(tier, seed):
    from pyvc import front     # noqa  (puts the working tree first on sys.path)
    logging.disable(logging.CRITICAL)
    from saml2_tophat import BINDING_HTTP_POST, saml, samlp, sigver, time_util
    from saml2_tophat import xmlenc as xenc
    from saml2_tophat.client import Saml2Client
    from saml2_tophat.config import SPConfig
    from saml2_tophat.s_utils import sid

    def fake_validate_signature(self, signedtext, cert_file, cert_type, node_name, node_id, id_attr):
        if isinstance(signedtext, bytes):
            signedtext = signedtext.decode('utf-8')
        root = ET.fromstring(signedtext)
        for elem in root.iter():
            if elem.get('ID') == node_id:
                sig = elem.find('{%s}Signature' % DS_NS)
                if sig is None:
                    raise sigver.XmlsecError('no signature on %s' % node_id)
                if (sig.findtext('{%s}SignatureValue' % DS_NS) or '').strip() == 'GOOD':
                    return True
                raise sigver.XmlsecError('signature verification FAIL')
        raise sigver.XmlsecError('node %s not found' % node_id)

    def fake_decrypt(self, enctext, key_file, id_attr):
        def sub(m):
            if m.group(1).strip() == 'NOKEY':
                return m.group(0)
            return base64.b64decode(m.group(1)).decode('utf-8')
        return ENC_RE.sub(sub, enctext)

    saved = (sigver.CryptoBackendXmlSec1.validate_signature, sigver.CryptoBackendXmlSec1.decrypt)
    sigver.CryptoBackendXmlSec1.validate_signature = fake_validate_signature
    sigver.CryptoBackendXmlSec1.decrypt = fake_decrypt
    violations, n = [], 0
    try:
        conf = SPConfig()
        conf.load({'entityid': SP,
                   'service': {'sp': {'endpoints': {'assertion_consumer_service': [(ACS, BINDING_HTTP_POST)]}, 'idp': [IDP]}},
                   'xmlsec_binary': sys.executable,          # any existing file: the binary is never run
                   'encryption_keypairs': [{'key_file': sys.executable, 'cert_file': sys.executable}],
                   'metadata': {'inline': [IDP_METADATA]}, 'allow_unknown_attributes': True})
        client = Saml2Client(conf)

        def signature(ident, good):
            sig = sigver.pre_signature_part(ident)
            sig.signed_info.reference.digest_value.text = 'ZGlnZXN0'
            sig.signature_value.text = 'GOOD' if good else 'BAD'
            return sig

        def make(irt, resp_sig, ass_sig, encrypted, mutate=None, undecryptable=False, layers=1):
            now, later = time_util.instant(), time_util.in_a_while(minutes=10)
            past, longpast = time_util.a_while_ago(minutes=10), time_util.a_while_ago(minutes=20)
            aid = sid()
            nb, noa, aud, rcpt, scirt = now, later, SP, ACS, irt
            if mutate == 'expired':
                nb, noa = longpast, past
            elif mutate == 'not-yet-valid':
                nb, noa = later, time_util.in_a_while(minutes=20)
            elif mutate == 'wrong-audience':
                aud = 'urn:example:pyvc:other-sp'
            elif mutate == 'wrong-recipient':
                rcpt = 'https://other.example.org/acs'
            elif mutate == 'confirmation-expired':
                pass
            elif mutate == 'unsolicited':
                scirt = 'id-never-sent'
            sc_noa = past if mutate == 'confirmation-expired' else later
            a = saml.Assertion(
                id=aid, version='2.0', issue_instant=now, issuer=saml.Issuer(text=IDP, format=saml.NAMEID_FORMAT_ENTITY),
                subject=saml.Subject(name_id=saml.NameID(text='user-%s' % aid, format=saml.NAMEID_FORMAT_TRANSIENT),
                                     subject_confirmation=[saml.SubjectConfirmation(method=saml.SCM_BEARER,
                                         subject_confirmation_data=saml.SubjectConfirmationData(in_response_to=scirt, recipient=rcpt,
                                                                                                not_on_or_after=sc_noa))]),
                conditions=saml.Conditions(not_before=nb, not_on_or_after=noa,
                                           audience_restriction=[saml.AudienceRestriction(audience=[saml.Audience(text=aud)])]),
                authn_statement=[saml.AuthnStatement(authn_instant=now, session_index=sid(), authn_context=saml.AuthnContext(
                    authn_context_class_ref=saml.AuthnContextClassRef(text=saml.AUTHN_PASSWORD)))],
                attribute_statement=[saml.AttributeStatement(attribute=[saml.Attribute(
                    name='urn:oid:2.5.4.42', name_format=saml.NAME_FORMAT_URI, attribute_value=[saml.AttributeValue(text='Derek')])])])
            if ass_sig is not None:
                a.signature = signature(aid, ass_sig)
            rid = sid()
            r = samlp.Response(id=rid, version='2.0', issue_instant=now, destination=ACS, in_response_to=irt,
                               issuer=saml.Issuer(text=IDP, format=saml.NAMEID_FORMAT_ENTITY),
                               status=samlp.Status(status_code=samlp.StatusCode(value=samlp.STATUS_SUCCESS)))
            if resp_sig is not None:
                r.signature = signature(rid, resp_sig)
            if encrypted:
                cipher = 'NOKEY' if undecryptable else base64.b64encode(str(a).encode('utf-8')).decode()
                for _ in range(layers - 1):
                    # encrypted more than once: each decryption round of the SP uncovers the next layer
                    inner = xenc.EncryptedData(type='http://www.w3.org/2001/04/xmlenc#Element',
                                               encryption_method=xenc.EncryptionMethod(algorithm='http://www.w3.org/2001/04/xmlenc#aes128-cbc'),
                                               cipher_data=xenc.CipherData(cipher_value=xenc.CipherValue(text=cipher)))
                    cipher = base64.b64encode(str(inner).encode('utf-8')).decode()
                r.encrypted_assertion = [saml.EncryptedAssertion(encrypted_data=xenc.EncryptedData(
                    type='http://www.w3.org/2001/04/xmlenc#Element',
                    encryption_method=xenc.EncryptionMethod(algorithm='http://www.w3.org/2001/04/xmlenc#aes128-cbc'),
                    cipher_data=xenc.CipherData(cipher_value=xenc.CipherValue(text=cipher))))]
            else:
                r.assertion = [a]
            return str(r)

        def observed(xml, outstanding, conv_info=None):
            try:
                resp = client.parse_authn_request_response(base64.b64encode(xml.encode('utf-8')), BINDING_HTTP_POST, outstanding,
                                                           conv_info=conv_info)
            except Exception as exc:
                return False, '%s: %s' % (type(exc).__name__, str(exc)[:120])
            if resp is None or not resp.assertion or resp.name_id is None:
                return False, 'no usable response'
            return True, 'accepted'

        # ---- C02: the signature-requirement table
        for want in itertools.product([True, False], repeat=3):
            for resp_sig, ass_sig in itertools.product([None, True, False], repeat=2):
                for encrypted in (False, True):
                    client.want_response_signed, client.want_assertions_signed, client.want_assertions_or_response_signed = want
                    rq = sid()
                    xml = make(rq, resp_sig, ass_sig, encrypted)
                    exp = not (resp_sig is False or ass_sig is False or (want[0] and resp_sig is None) or
                               (want[1] and ass_sig is None) or (want[2] and resp_sig is None and ass_sig is None))
                    obs, why = observed(xml, {rq: 'https://sp.example.org/came_from'})
                    n += 1
                    if obs != exp:
                        violations.append({'name': 'bounded[signature-table]',
                                           'cell': 'want(response=%s, assertions=%s, either=%s) response signature %s, assertion signature %s, %s'
                                                   % (want[0], want[1], want[2], SIGNAME[resp_sig], SIGNAME[ass_sig],
                                                      'encrypted' if encrypted else 'plain'),
                                           'what': 'expected %s, the library %s (%s)' % ('accept' if exp else 'reject',
                                                                                         'accepts' if obs else 'rejects', why)})
        # ---- C17: a decrypted assertion gets every check a plain one gets
        client.want_response_signed, client.want_assertions_signed, client.want_assertions_or_response_signed = False, False, False
        for mutate in ['expired', 'not-yet-valid', 'wrong-audience', 'wrong-recipient', 'confirmation-expired', 'unsolicited']:
            for encrypted in (False, True):
                rq = sid()
                # (the Recipient is only checked when the application supplies conversation information, C05)
                obs, why = observed(make(rq, None, None, encrypted, mutate=mutate), {rq: 'https://sp.example.org/came_from'},
                                    conv_info={'remote_addr': '', 'request_uri': ACS, 'entity_id': SP, 'endpoints': [ACS]})
                n += 1
                if obs:
                    violations.append({'name': 'bounded[decrypted-assertion-checks]', 'cell': '%s, %s' % (mutate, 'encrypted' if encrypted else 'plain'),
                                       'what': 'an assertion that is %s was accepted' % mutate})
        # an assertion that only surfaces in a later decryption round gets the same signature treatment
        for want_ass, ass_sig in itertools.product([False, True], [None, True, False]):
            client.want_response_signed, client.want_assertions_signed, client.want_assertions_or_response_signed = False, want_ass, False
            rq = sid()
            obs, why = observed(make(rq, None, ass_sig, True, layers=2), {rq: 'https://sp.example.org/came_from'})
            exp = not (ass_sig is False or (want_ass and ass_sig is None))
            n += 1
            if obs != exp:
                violations.append({'name': 'bounded[decrypted-assertion-checks]',
                                   'cell': 'encrypted twice, want_assertions_signed=%s, assertion signature %s' % (want_ass, SIGNAME[ass_sig]),
                                   'what': 'expected %s, the library %s (%s)' % ('accept' if exp else 'reject', 'accepts' if obs else 'rejects', why)})
        client.want_response_signed, client.want_assertions_signed, client.want_assertions_or_response_signed = False, False, False
        rq = sid()
        obs, why = observed(make(rq, None, None, True, undecryptable=True), {rq: 'https://sp.example.org/came_from'})
        n += 1
        if obs:
            violations.append({'name': 'bounded[decrypted-assertion-checks]', 'cell': 'undecryptable',
                               'what': 'content that no key decrypts yielded an identity'})
        # control: the unmutated encrypted assertion is accepted (the harness itself works)
        rq = sid()
        obs, why = observed(make(rq, None, None, True), {rq: 'https://sp.example.org/came_from'})
        n += 1
        if not obs:
            violations.append({'name': 'bounded[decrypted-assertion-checks]', 'cell': 'control',
                               'what': 'a valid encrypted assertion was rejected (%s)' % why})
    finally:
        sigver.CryptoBackendXmlSec1.validate_signature, sigver.CryptoBackendXmlSec1.decrypt = saved
    return {'name': 'sig_table', 'label': 'BOUNDED (finite table of the statement through the real SP entry point with a stubbed tool; not a proof)',
            'bound': '8 option settings x 3 x 3 signature states x {plain, encrypted} = 144 cells; 6 mutations x {plain, encrypted}; '
                     'undecryptable content; 6 twice-encrypted cases; 1 control',
            'evaluations': n, 'violations': violations}
