"""Shared set-up for the bounded checks that need a signing / encrypting tool: an IdP and SPs configured from each other's
generated metadata, with bounded/xmlsec1_standin.py installed as the xmlsec1 executable (see that file: a stand-in, not
cryptography)."""
import json
import os
import shutil
import stat
import sys
import tempfile

IDP_ID = 'https://idp.example.org/idp.xml'
IDP_B_ID = 'https://idp-b.example.net/idp.xml'
SP_ID = 'https://sp.example.org/sp.xml'
SSO, ACS = 'https://idp.example.org/sso', 'https://sp.example.org/acs/post'
PAIRS = {'idp': ('test.key', 'test.pem'), 'sp': ('test_1.key', 'test_1.crt'), 'other': ('test_2.key', 'test_2.crt')}


class Env(object):
    def __enter__(self):
        from pyvc import front
        import saml2_tophat.metadata as md_mod      # noqa
        from saml2_tophat import BINDING_HTTP_POST, BINDING_HTTP_REDIRECT, saml
        from saml2_tophat.client import Saml2Client
        from saml2_tophat.config import IdPConfig, SPConfig
        from saml2_tophat.metadata import entity_descriptor
        from saml2_tophat.server import Server
        from bounded import xmlsec1_standin as tool
        self.keys = keys = os.path.join(front.REPO, 'tests')
        here = os.path.dirname(os.path.abspath(__file__))
        out = os.path.join(os.path.dirname(here), 'out')
        self.tmp = tmp = tempfile.mkdtemp(prefix='pyvc_standin_', dir=out if os.path.isdir(out) else None)
        self.saved_env = os.environ.get('XMLSEC1_STANDIN_KEYS')
        self.binary = binary = os.path.join(here, 'xmlsec1')       # committed wrapper script: runs xmlsec1_standin.py
        self.saved_py = os.environ.get('XMLSEC1_STANDIN_PYTHON')
        os.environ['XMLSEC1_STANDIN_PYTHON'] = sys.executable
        self.key_table = dict((os.path.join(keys, k), tool.cert_identity(os.path.join(keys, c))) for k, c in PAIRS.values())
        os.environ['XMLSEC1_STANDIN_KEYS'] = json.dumps(self.key_table)

        def idp_conf(md):
            return {'entityid': IDP_ID,
                    'service': {'idp': {'endpoints': {'single_sign_on_service': [(SSO, BINDING_HTTP_REDIRECT)]},
                                        'policy': {'default': {'lifetime': {'minutes': 15}, 'attribute_restrictions': None,
                                                               'name_form': saml.NAME_FORMAT_URI}},
                                        'subject_data': os.path.join(tmp, 'subject.db')}},
                    'key_file': os.path.join(keys, PAIRS['idp'][0]), 'cert_file': os.path.join(keys, PAIRS['idp'][1]),
                    'xmlsec_binary': binary, 'metadata': md}

        def sp_conf(md, pair, want_resp, want_ass, extra=None):
            conf = {'entityid': SP_ID,
                    'service': {'sp': dict({'endpoints': {'assertion_consumer_service': [(ACS, BINDING_HTTP_POST)]},
                                            'want_response_signed': want_resp, 'want_assertions_signed': want_ass,
                                            'allow_unsolicited': False}, **(extra or {}))},
                    'key_file': os.path.join(keys, PAIRS[pair][0]), 'cert_file': os.path.join(keys, PAIRS[pair][1]),
                    'encryption_keypairs': [{'key_file': os.path.join(keys, PAIRS[pair][0]), 'cert_file': os.path.join(keys, PAIRS[pair][1])}],
                    'xmlsec_binary': binary, 'metadata': md}
            return conf
        self.idp_md = str(entity_descriptor(IdPConfig().load(idp_conf({}), metadata_construction=True)))
        self.sp_md = str(entity_descriptor(SPConfig().load(sp_conf({}, 'sp', False, False), metadata_construction=True)))
        # a second identity provider the SPs also know from metadata, with another key pair ('other')
        conf_b = idp_conf({})
        conf_b.update({'entityid': IDP_B_ID, 'key_file': os.path.join(keys, PAIRS['other'][0]), 'cert_file': os.path.join(keys, PAIRS['other'][1])})
        conf_b['service']['idp']['endpoints'] = {'single_sign_on_service': [('https://idp-b.example.net/sso', BINDING_HTTP_REDIRECT)]}
        self.idp_b_md = str(entity_descriptor(IdPConfig().load(conf_b, metadata_construction=True)))
        self.idp = Server(config=IdPConfig().load(idp_conf({'inline': [self.sp_md]})))
        self._strict = None

        def strict_idp():
            # the same IdP, configured to accept signed AuthnRequests only
            if self._strict is None:
                conf = idp_conf({'inline': [self.sp_md]})
                conf['service']['idp']['want_authn_requests_signed'] = True
                conf['service']['idp']['subject_data'] = os.path.join(tmp, 'subject_strict.db')
                self._strict = Server(config=IdPConfig().load(conf))
            return self._strict
        self.strict_idp = strict_idp
        self._sps = {}

        def sp_for(pair, want_resp, want_ass, instance=None, **extra):
            # instance: any value; a different one gives a different SP object with the same configuration
            k = (pair, want_resp, want_ass, instance, tuple(sorted(extra.items())))
            if k not in self._sps:
                self._sps[k] = Saml2Client(config=SPConfig().load(sp_conf({'inline': [self.idp_md, self.idp_b_md]}, pair, want_resp, want_ass, extra)))
            return self._sps[k]
        self.sp_for = sp_for
        self.POST = BINDING_HTTP_POST
        return self

    def pem_body(self, name):
        txt = open(os.path.join(self.keys, PAIRS[name][1])).read()
        return ''.join(l for l in txt.splitlines() if l and not l.startswith('-----'))

    def __exit__(self, *exc):
        for srv in (self.idp, self._strict):
            try:
                srv.ident.close()
            except Exception:
                pass
        if self.saved_py is None:
            os.environ.pop('XMLSEC1_STANDIN_PYTHON', None)
        else:
            os.environ['XMLSEC1_STANDIN_PYTHON'] = self.saved_py
        if self.saved_env is None:
            os.environ.pop('XMLSEC1_STANDIN_KEYS', None)
        else:
            os.environ['XMLSEC1_STANDIN_KEYS'] = self.saved_env
        shutil.rmtree(self.tmp, ignore_errors=True)
        return False
