"""BOUNDED stand-in for the generic (de)serialisers of C12 (never counted as proved): for EVERY schema class an
instance tree is generated (every declared attribute set, every child member populated to depth D, list members with
2 elements, XML-special / non-ASCII text, one foreign child and one foreign attribute injected), serialised, parsed
back, compared structurally, and serialised again (must be byte-identical)."""
import sys
import warnings

warnings.simplefilter('ignore')
TEXTS = ['plain', 'a<b&c>"d\'', u'åäö ☃', '  spaced  ']


def make(cls, depth, salt=0):
    import saml2_tophat
    kw = {}
    for key, spec in cls.c_attributes.items():
        kw[spec[0]] = _attr_value(spec[1], salt)
    inst = cls(**kw)
    if getattr(cls, 'c_value_type', None) is not None or not cls.c_children:
        try:
            inst.text = TEXTS[salt % len(TEXTS)]
        except Exception:
            pass
    if depth > 0:
        for key, (name, klass) in cls.c_children.items():
            member = klass[0] if isinstance(klass, list) else klass
            if not isinstance(member, type) or member.__name__.endswith('Type_') and member.c_children and depth < 1:
                continue
            try:
                if isinstance(klass, list):
                    setattr(inst, name, [make(member, depth - 1, salt + 1), make(member, depth - 1, salt + 2)])
                else:
                    setattr(inst, name, make(member, depth - 1, salt + 1))
            except Exception:
                pass
    return inst


def _attr_value(typ, salt):
    if isinstance(typ, str):
        t = typ.split(':')[-1]
        if t in ('boolean',):
            return 'true'
        if t in ('dateTime', 'datetime'):
            return '2020-01-01T00:00:00Z'
        if 'nteger' in t or t in ('unsignedShort', 'unsignedByte', 'int', 'long'):
            return '3'
        if t == 'anyURI':
            return 'urn:x:y?a=1&b=2'
    return TEXTS[salt % len(TEXTS)].strip() or 'v'


def same(a, b, path='', out=None):
    import saml2_tophat
    out = out if out is not None else []
    if type(a) is not type(b):
        out.append('%s: type %s != %s' % (path, type(a).__name__, type(b).__name__))
        return out
    for key, spec in a.c_attributes.items():
        if getattr(a, spec[0], None) != getattr(b, spec[0], None):
            out.append('%s@%s: %r != %r' % (path, spec[0], getattr(a, spec[0], None), getattr(b, spec[0], None)))
    ta, tb = (a.text or '').strip(), (b.text or '').strip()
    if ta != tb:
        out.append('%s/text: %r != %r' % (path, a.text, b.text))
    for key, (name, klass) in a.c_children.items():
        va, vb = getattr(a, name, None), getattr(b, name, None)
        la = va if isinstance(va, list) else ([va] if va is not None else [])
        lb = vb if isinstance(vb, list) else ([vb] if vb is not None else [])
        if len(la) != len(lb):
            out.append('%s/%s: %d children != %d' % (path, name, len(la), len(lb)))
            continue
        for i, (x, y) in enumerate(zip(la, lb)):
            same(x, y, '%s/%s[%d]' % (path, name, i), out)
    if len(a.extension_elements) != len(b.extension_elements):
        out.append('%s: %d extension elements != %d' % (path, len(a.extension_elements), len(b.extension_elements)))
    if dict(a.extension_attributes) != dict(b.extension_attributes):
        out.append('%s: extension attributes %r != %r' % (path, a.extension_attributes, b.extension_attributes))
    return out


def child_order_ok(inst, xml):
    """children appear in c_child_order"""
    import defusedxml.ElementTree as DET
    root = DET.fromstring(xml)
    if not inst.c_child_order:
        return True
    tag2name = {k: v[0] for k, v in inst.c_children.items()}
    seq = [tag2name[c.tag] for c in root if c.tag in tag2name]
    pos = [inst.c_child_order.index(n) for n in seq if n in inst.c_child_order]
    return pos == sorted(pos)


def run(tier, seed):
    from pyvc import front, tables     # noqa
    import saml2_tophat
    depth = 1 if tier == 'quick' else 2
    classes = tables.schema_classes()
    violations, n, distinct = [], 0, 0
    skipped = []
    for cls in classes:
        if cls.__name__ in ('AttributeValueBase',):
            continue
        try:
            inst = make(cls, depth, salt=seed)
            # foreign content must be kept as extension content
            inst.extension_attributes['{urn:pyvc:foreign}attr'] = 'fa'
            inst.extension_elements.append(saml2_tophat.ExtensionElement('foreign', namespace='urn:pyvc:foreign', text='ft'))
            # ... also an attribute that only LOOKS like a declared one: a declared local name, qualified with the
            # element's own namespace (a different attribute in the XML data model)
            plain = sorted(k for k in cls.c_attributes if not k.startswith('{'))
            if plain and getattr(cls, 'c_namespace', None):
                inst.extension_attributes['{%s}%s' % (cls.c_namespace, plain[0])] = 'qa'
            xml = inst.to_string()
        except Exception as e:
            skipped.append('%s.%s: cannot build/serialise an instance: %r' % (cls.__module__, cls.__name__, e))
            continue
        n += 1
        q = '%s.%s' % (cls.__module__, cls.__name__)
        try:
            back = saml2_tophat.create_class_from_xml_string(cls, xml)
        except Exception as e:
            violations.append({'name': 'bounded[schema-roundtrip:%s]' % q, 'class': q, 'what': 'parse of own serialisation raised %r' % (e,)})
            continue
        if back is None:
            violations.append({'name': 'bounded[schema-roundtrip:%s]' % q, 'class': q, 'what': 'own serialisation not recognised'})
            continue
        diffs = same(inst, back, cls.__name__)
        if diffs:
            violations.append({'name': 'bounded[schema-roundtrip:%s]' % q, 'class': q, 'what': 'round trip differs: ' + '; '.join(diffs[:3])})
            continue
        if back.to_string() != xml:
            violations.append({'name': 'bounded[schema-roundtrip:%s]' % q, 'class': q, 'what': 'second serialisation differs from the first'})
            continue
        if not child_order_ok(inst, xml):
            violations.append({'name': 'bounded[schema-roundtrip:%s]' % q, 'class': q, 'what': 'children not emitted in c_child_order'})
            continue
        distinct += 1
    return {'name': 'schema_roundtrip', 'label': 'BOUNDED (generic (de)serialisers of C12 exercised natively on generated instances)',
            'bound': 'all %d schema classes, instance depth %d, list members 2, %d text variants, 1 foreign child + 1 foreign attribute + 1 own-namespace-qualified look-alike attribute'
                     % (len(classes), depth, len(TEXTS)),
            'evaluations': n, 'round_trips_identical': distinct, 'not_buildable': skipped[:10], 'n_not_buildable': len(skipped),
            'violations': violations}


if __name__ == '__main__':
    import json, os
    sys.path.insert(0, os.path.dirname(os.path.dirname(os.path.abspath(__file__))))
    r = run(sys.argv[1] if len(sys.argv) > 1 else 'quick', 0)
    print(json.dumps({k: v for k, v in r.items() if k != 'violations'}, indent=1))
    for v in r['violations'][:15]:
        print(v)
    print(len(r['violations']), 'violations')
