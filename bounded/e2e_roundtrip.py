"""BOUNDED stand-in for C08 (never counted as proved): an IdP (Server) and an SP (Saml2Client) are configured from each other's
generated metadata; for a grid of identities (XML-special characters, quotes, look-alike markup, non-ASCII, surrounding
whitespace, empty and whitespace-only values, long and many-valued attributes) x NameID formats x authentication contexts x
lifetimes the IdP builds a response with the real Server.create_authn_response and the SP reads it with the real
Saml2Client.parse_authn_request_response.  The response must be accepted, and subject identifier, attribute names and
values (after name mapping and whitespace trimming), InResponseTo, issuer, authentication context and session expiry read
by the application must equal what the IdP was asked to assert; an independent XML parser must see exactly one Assertion
with exactly the asserted attributes (values are data, not structure).

xmlsec1 is not installed, so only UNSIGNED, UNENCRYPTED responses are exercised (sign_* / encrypt_* combinations of the C08
statement are not covered); the tool's algorithm probing during metadata generation is stubbed."""
import base64
import logging
import os
import shutil
import sys
import tempfile
import warnings
import xml.etree.ElementTree as ET

warnings.simplefilter('ignore')

IDP_ID, SP_ID = 'https://idp.example.org/idp.xml', 'https://sp.example.org/sp.xml'
SSO, ACS = 'https://idp.example.org/sso', 'https://sp.example.org/acs/post'
NS = {'saml': 'urn:oasis:names:tc:SAML:2.0:assertion', 'samlp': 'urn:oasis:names:tc:SAML:2.0:protocol'}
LOOKALIKE = '</saml:AttributeValue></saml:Attribute><saml:Attribute Name="admin"><saml:AttributeValue>true'
IDENTITIES = [
    {'givenName': ['  Derek '], 'mail': ['a@example.org', 'b@example.org']},
    {'mail': ['a@example.org', '', 'b@example.org'], 'title': ['   '], 'givenName': ['Derek']},
    {'givenName': ['a<b&c>"d\'e'], 'sn': [LOOKALIKE], 'title': ['<!-- x -->', '<![CDATA[y]]>', '&amp;', '&#x3c;']},
    {'givenName': [u'Bj\xf6rn ☃ \U0001F600'], 'sn': [u'مرحبا'], 'mail': [u'\xe5@example.org']},
    {'displayName': ['x' * 5000], 'mail': ['m%d@example.org' % i for i in range(40)]},
    {'uid': ['line1\nline2\ttab'], 'givenName': ['"quoted"', "'single'"]},
    {},
]


def run(tier, seed):
    from pyvc import front     # noqa  (puts the working tree first on sys.path)
    logging.disable(logging.CRITICAL)
    import saml2_tophat.metadata as md_mod
    from saml2_tophat import BINDING_HTTP_POST, BINDING_HTTP_REDIRECT, saml
    from saml2_tophat.authn_context import INTERNETPROTOCOLPASSWORD, PASSWORDPROTECTEDTRANSPORT
    from saml2_tophat.client import Saml2Client
    from saml2_tophat.config import IdPConfig, SPConfig
    from saml2_tophat.metadata import entity_descriptor
    from saml2_tophat.server import Server
    md_mod.algorithm_support_in_metadata = lambda xmlsec: []       # the tool is not there to be asked
    keys = os.path.join(front.REPO, 'tests')
    out = os.path.join(os.path.dirname(os.path.dirname(os.path.abspath(__file__))), 'out')
    tmp = tempfile.mkdtemp(prefix='pyvc_e2e_', dir=out if os.path.isdir(out) else None)
    violations, n = [], 0
    try:
        def idp_conf(md, minutes):
            return {'entityid': IDP_ID,
                    'service': {'idp': {'endpoints': {'single_sign_on_service': [(SSO, BINDING_HTTP_REDIRECT)]},
                                        'policy': {'default': {'lifetime': {'minutes': minutes}, 'attribute_restrictions': None,
                                                               'name_form': saml.NAME_FORMAT_URI}},
                                        'subject_data': os.path.join(tmp, 'subject%d.db' % minutes)}},
                    'key_file': os.path.join(keys, 'test.key'), 'cert_file': os.path.join(keys, 'test.pem'),
                    'xmlsec_binary': sys.executable, 'metadata': md}

        def sp_conf(md):
            return {'entityid': SP_ID,
                    'service': {'sp': {'endpoints': {'assertion_consumer_service': [(ACS, BINDING_HTTP_POST)]},
                                       'want_response_signed': False, 'want_assertions_signed': False, 'allow_unsolicited': False}},
                    'key_file': os.path.join(keys, 'test.key'), 'cert_file': os.path.join(keys, 'test.pem'),
                    'xmlsec_binary': sys.executable, 'metadata': md}
        lifetimes = [15] if tier == 'quick' else [1, 15, 600]
        for minutes in lifetimes:
            idp_md = str(entity_descriptor(IdPConfig().load(idp_conf({}, minutes), metadata_construction=True)))
            sp_md = str(entity_descriptor(SPConfig().load(sp_conf({}), metadata_construction=True)))
            idp = Server(config=IdPConfig().load(idp_conf({'inline': [sp_md]}, minutes)))
            sp = Saml2Client(config=SPConfig().load(sp_conf({'inline': [idp_md]})))
            for identity in IDENTITIES:
                for nid_format in (saml.NAMEID_FORMAT_TRANSIENT, saml.NAMEID_FORMAT_PERSISTENT):
                    for ctx in (INTERNETPROTOCOLPASSWORD, PASSWORDPROTECTEDTRANSPORT):
                        n += 1
                        label = 'identity %r..., %s, %s, lifetime %d min' % (sorted(identity)[:3], nid_format.rsplit(':', 1)[-1],
                                                                             ctx.rsplit(':', 1)[-1], minutes)
                        try:
                            rid, _req = sp.create_authn_request(SSO, binding=BINDING_HTTP_POST)
                            name_id = saml.NameID(format=nid_format, text='subject <&> %d' % n, sp_name_qualifier=SP_ID)
                            resp = idp.create_authn_response(identity=dict((k, list(v)) for k, v in identity.items()), in_response_to=rid,
                                                             destination=ACS, sp_entity_id=SP_ID, name_id=name_id, userid='user-1',
                                                             authn={'class_ref': ctx, 'authn_auth': 'https://idp.example.org/'})
                            xml = str(resp)
                        except Exception as e:
                            violations.append({'name': 'bounded[e2e-roundtrip]', 'case': label, 'what': 'the IdP could not build the response: %r' % (e,)})
                            continue
                        # structure, seen by an independent parser
                        try:
                            root = ET.fromstring(xml.encode('utf-8'))
                            assertions = root.findall('saml:Assertion', NS)
                            attrs = root.findall('saml:Assertion/saml:AttributeStatement/saml:Attribute', NS)
                            if len(assertions) != 1 or len(attrs) != len(identity) or len(root.findall('.//saml:Attribute', NS)) != len(identity):
                                violations.append({'name': 'bounded[e2e-roundtrip]', 'case': label,
                                                   'what': 'the message has %d assertions / %d attributes, asked for 1 / %d (values changed the structure)'
                                                           % (len(assertions), len(attrs), len(identity))})
                                continue
                        except ET.ParseError as e:
                            violations.append({'name': 'bounded[e2e-roundtrip]', 'case': label, 'what': 'the emitted message is not well-formed: %s' % e})
                            continue
                        try:
                            ar = sp.parse_authn_request_response(base64.b64encode(xml.encode('utf-8')).decode('ascii'), BINDING_HTTP_POST, {rid: '/'})
                        except Exception as e:
                            violations.append({'name': 'bounded[e2e-roundtrip]', 'case': label, 'what': 'the SP rejected the response: %r' % (e,)})
                            continue
                        if ar is None:
                            violations.append({'name': 'bounded[e2e-roundtrip]', 'case': label, 'what': 'the SP returned no response object'})
                            continue
                        want = dict((k, [v.strip() for v in vals]) for k, vals in identity.items())
                        problems = []
                        if ar.ava != want:
                            problems.append('attributes read %r, asserted %r' % (_short(ar.ava), _short(want)))
                        if ar.name_id is None or ar.name_id.text != name_id.text or ar.name_id.format != nid_format:
                            problems.append('subject read %r, asserted %r' % (getattr(ar.name_id, 'text', None), name_id.text))
                        if ar.in_response_to != rid:
                            problems.append('InResponseTo read %r, sent %r' % (ar.in_response_to, rid))
                        try:
                            iss, info, noa = ar.issuer(), ar.authn_info(), ar.session_info().get('not_on_or_after')
                        except Exception as e:
                            violations.append({'name': 'bounded[e2e-roundtrip]', 'case': label,
                                               'what': 'the accepted response could not be read by the application: %r' % (e,)})
                            continue
                        if iss != IDP_ID:
                            problems.append('issuer read %r' % (iss,))
                        if not info or info[0][0] != ctx:
                            problems.append('authentication context read %r, asserted %r' % (info, ctx))
                        import time as _t
                        if not noa or abs(noa - (_t.time() + minutes * 60)) > 120:
                            problems.append('session expiry read %r, the policy lifetime is %d min' % (noa, minutes))
                        for pb in problems:
                            violations.append({'name': 'bounded[e2e-roundtrip]', 'case': label, 'what': pb})
            try:
                idp.ident.close()       # the identifier database is file backed: close it before the scratch directory goes
            except Exception:
                pass
    finally:
        shutil.rmtree(tmp, ignore_errors=True)
    return {'name': 'e2e_roundtrip', 'label': 'BOUNDED (IdP -> SP round trip of unsigned responses on generated metadata; not a proof)',
            'bound': '%d identities x 2 NameID formats x 2 authentication contexts x %d lifetimes; unsigned, unencrypted, HTTP-POST only'
                     % (len(IDENTITIES), len(lifetimes)),
            'evaluations': n, 'violations': violations[:30]}


def _short(d):
    return dict((k, [x[:40] for x in v][:5]) for k, v in d.items())
