"""Symbolic executor, part 3: calls.  A call is replaced by the callee's *contract* (never its body),
except for callees marked inline (listed in the evidence) and the builtin operations of builtins.py."""
import ast
import z3
from .sorts import *      # noqa
from . import types as Ty
from . import front
from .front import Unsupported
from .state import tid, in_pre
from .state import (SV, State, const_sv, truthy, shape, field_type, KIND, CLS, cls_in, new_list, new_dict,
                    new_exception, new_instance, new_list_from_seq, alloc, elem_type, int_of, str_of, val_of,
                    GHOSTS)
from .execcore import Outcome, Exc, SeqHolder
from .state import merge_states
from .execexpr import ExecExpr, compat
from . import spec as SP

BUILTIN_FUNCS = {}      # 'module:name' -> handler(ex, st, args, kwargs, node) -> (normals, raises)
BUILTIN_METHODS = {}    # (kind, name) -> handler(ex, st, recv, args, kwargs, node); kind in str/bytes/list/dict/tuple/set


def builtin(qual):
    def deco(f):
        BUILTIN_FUNCS[qual] = f
        return f
    return deco


def method(kind, name):
    def deco(f):
        BUILTIN_METHODS[(kind, name)] = f
        return f
    return deco


def prim_kind(ty):
    ty = Ty.strip_opt(ty)
    return {Ty.TStr: 'str', Ty.TBytes: 'bytes', Ty.TList: 'list', Ty.TDict: 'dict', Ty.TTuple: 'tuple',
            Ty.TSet: 'set'}.get(type(ty))


class Exec(ExecExpr):

    cur_line = 0

    def ex_Call(self, n, st):
        self.cur_line = n.lineno
        if any(isinstance(a, ast.Starred) for a in n.args):
            raise Unsupported('*args in a call (line %d)' % n.lineno)
        out, raises = [], []
        # 1. callee
        callee_states = []
        if isinstance(n.func, ast.Attribute):
            bn, br = self.ev(n.func.value, st)
            raises.extend(br)
            for c, base in bn:
                for c2, b2 in self.narrow_union(c, base, raises):
                    from .execexpr import dict_view
                    if n.func.attr in ('items', 'keys', 'values', 'get', 'copy', 'update', 'pop', 'setdefault') and \
                            isinstance(dict_view(b2).ty, Ty.TDict):
                        b2 = dict_view(b2)
                    k = prim_kind(b2.ty)
                    if k is None and isinstance(b2.ty, Ty.TAny) and ('str', n.func.attr) in BUILTIN_METHODS and \
                            ('list', n.func.attr) not in BUILTIN_METHODS and ('dict', n.func.attr) not in BUILTIN_METHODS:
                        # unknown static type, str-only method: a str at run time, otherwise AttributeError
                        # (A-PY: such a value is not a bytes object)
                        isstr, other = self.fork(c2, is_str(b2.term), None)
                        if other is not None:
                            raises.append(self.raised(other, 'builtins:AttributeError'))
                        if isstr is None:
                            continue
                        c2, b2, k = isstr, SV(b2.term, Ty.STR), 'str'
                    if k is not None:
                        callee_states.append((c2, ('method', k, b2, n.func.attr)))
                    else:
                        fn, fr = self.read_field(c2, b2, n.func.attr)
                        raises.extend(fr)
                        for c3, fv in fn:
                            callee_states.append((c3, ('value', fv)))
        else:
            fn, fr = self.ev(n.func, st)
            raises.extend(fr)
            for c, fv in fn:
                callee_states.append((c, ('value', fv)))
        # 2. arguments
        kwnames = [k.arg for k in n.keywords]
        for c, callee in callee_states:
            an, ar = self.ev_many(list(n.args) + [k.value for k in n.keywords], c)
            raises.extend(ar)
            for c2, vals in an:
                args = vals[:len(n.args)]
                kwargs = {}
                star = None
                for name, v in zip(kwnames, vals[len(n.args):]):
                    if name is None:
                        star = v
                    else:
                        kwargs[name] = v
                if star is not None:
                    keys = c2.notes.get(('keys', tid(star.term)))
                    if keys is None:
                        raise Unsupported('**mapping whose keys are not statically known (line %d)' % n.lineno)
                    for k in keys:
                        vterm = c2.DV[va(star.term)][lit(k)]
                        c2.assume(shape(c2, vterm, Ty.ANY, pre=in_pre(c2.DV.eq(z3.Const('DV0', DVArr)), va(star.term))))
                        kwargs[k] = SV(vterm, Ty.ANY)
                if callee[0] == 'method':
                    _, kind, recv, mname = callee
                    h = BUILTIN_METHODS.get((kind, mname))
                    if h is None:
                        raise Unsupported('method %s.%s (line %d)' % (kind, mname, n.lineno))
                    ns, rs = h(self, c2, recv, args, kwargs, n)
                else:
                    ns, rs = self.call_function(c2, callee[1], args, kwargs, n)
                out.extend(ns)
                raises.extend(rs)
        return merge_states(out), raises

    def narrow_union(self, st, base, raises):
        """receiver whose static type is a union: one continuation per alternative, guarded by its run-time shape"""
        if not isinstance(base.ty, Ty.TUnion):
            return self.strip_none(st, base, raises)
        out = []
        rest = st
        for t in base.ty.ts:
            if rest is None:
                break
            yes, rest = self.fork(rest.copy(), shape(rest, base.term, t), None)
            if yes is not None:
                out.extend(self.strip_none(yes, SV(base.term, t), raises))
        return out

    def strip_none(self, st, base, raises):
        """receiver of a method call: None -> AttributeError"""
        if isinstance(base.ty, Ty.TOpt):
            nn, isn = self.fork(st, Not(is_none(base.term)), None)
            if isn is not None:
                raises.append(self.raised(isn, 'builtins:AttributeError'))
            if nn is None:
                return []
            return [(nn, SV(base.term, base.ty.t, base.py, base.has_py))]
        if isinstance(base.ty, Ty.TNone):
            raises.append(self.raised(st, 'builtins:AttributeError'))
            return []
        return [(st, base)]

    # ------------------------------------------------------------------ dispatch
    def call_function(self, st, fv, args, kwargs, node):
        ty = fv.ty
        if isinstance(ty, Ty.TFunc):
            q = ty.qual
            if q in BUILTIN_FUNCS and ty.recv is None:
                return BUILTIN_FUNCS[q](self, st, args, kwargs, node)
            nested = self.eng.nested.get(q)
            c = self.eng.contract_for(q, ty.recv)
            if c is not None and not c.inline:
                return self.apply_contract(st, c, ty.recv, args, kwargs, node)
            if nested is not None or (c is not None and c.inline):
                return self.inline_call(st, q, ty.recv, args, kwargs, node, c)
            if c is None and _auto_inlinable(q):
                # a contract-less, loop-free helper of the package is verified as part of its caller (listed under
                # inlined_callees in the evidence)
                return self.inline_call(st, q, ty.recv, args, kwargs, node, None)
            raise Unsupported('no contract for callee %s (line %d)' % (q, getattr(node, 'lineno', 0)))
        if isinstance(ty, Ty.TCls) and ty.name:
            if ty.name in BUILTIN_FUNCS:        # bool(), int(), str(), float(), list(), dict() are classes
                return BUILTIN_FUNCS[ty.name](self, st, args, kwargs, node)
            return self.instantiate(st, ty.name, args, kwargs, node)
        if isinstance(ty, Ty.TCls):
            # symbolic class (e.g. an exception class picked from a table): only exceptions are supported
            a = alloc(st, K_INST)
            st.assume(CLS(a) == vc(fv.term))
            return [(st, SV(VRef(a), Ty.ANY))], []
        raise Unsupported('call of a value of static type %r (line %d)' % (ty, getattr(node, 'lineno', 0)))

    def instantiate(self, st, clsq, args, kwargs, node):
        c = front.cls_obj(clsq)
        if issubclass(c, BaseException):
            return [(st, new_exception(st, clsq, args))], []
        ctor = self.eng.contract_for(clsq + '.__init__', None) or self.eng.contract_for(clsq, None)
        if ctor is not None:
            obj = new_instance(st, clsq)
            if ctor.inline:
                owner, member = front.method_owner(clsq, '__init__')
                q = '%s:%s' % (member.__module__, member.__qualname__)
                ns, rs = self.inline_call(st, q, obj, args, kwargs, node, ctor)
                return [(c2, obj) for c2, _ in ns], rs
            ns, rs = self.apply_contract(st, ctor, obj, args, kwargs, node)
            return [(c2, obj) for c2, _ in ns], rs
        sf = front.schema_fields(clsq)
        if sf is not None and not args:
            obj = new_instance(st, clsq)
            a = va(obj.term)
            for fname, (kind, member) in sorted(sf.items()):
                if fname in kwargs:
                    v = kwargs[fname]
                elif kind in ('children', 'ext_elems'):
                    v = new_list(st, [], Ty.Inst(member) if member else Ty.ANY)
                elif kind == 'ext_attrs':
                    v = new_dict(st, [], Ty.STR, Ty.STR)
                else:
                    v = const_sv(None)
                st.heap[fname] = z3.Store(st.field(fname), a, v.term)
            unknown = set(kwargs) - set(sf)
            if unknown:
                raise Unsupported('constructor of %s with unknown members %s' % (clsq, sorted(unknown)))
            return [(st, obj)], []
        raise Unsupported('no constructor contract for class %s (line %d)' % (clsq, getattr(node, 'lineno', 0)))

    # ------------------------------------------------------------------ parameter binding
    def signature_of(self, c, q):
        """(positional names, kwonly, defaults{name: ('ast', node, modname) | ('py', value)}, vararg, kwarg)"""
        if c is not None and c.params is not None:
            pos = list(c.params)
            defaults = {k: ('py', v) for k, v in c.defaults.items()}
            kw = None
            if pos and pos[-1].startswith('**'):
                kw = pos.pop()[2:]
            return pos, [], defaults, None, kw
        fi = front.find_function(q)
        pos, kwonly, defaults, vararg, kwarg = front.func_signature_defaults(fi)
        return pos, kwonly, {k: ('ast', v, fi.modname) for k, v in defaults.items()}, vararg, kwarg

    def bind(self, st, c, q, recv, args, kwargs, node):
        pos, kwonly, defaults, vararg, kwarg = self.signature_of(c, q)
        env = {}
        actual = ([recv] if recv is not None else []) + list(args)
        if len(actual) > len(pos):
            if vararg is None:
                raise Unsupported('too many positional arguments for %s (line %d)' % (q, getattr(node, 'lineno', 0)))
            env[vararg] = new_list(st, actual[len(pos):], kind=K_TUPLE)
            actual = actual[:len(pos)]
        elif vararg is not None:
            env[vararg] = new_list(st, [], kind=K_TUPLE)
        for name, v in zip(pos, actual):
            env[name] = v
        extra = {}
        for k, v in kwargs.items():
            if k in pos or k in kwonly:
                if k in env:
                    raise Unsupported('argument %s given twice for %s' % (k, q))
                env[k] = v
            else:
                extra[k] = v
        if extra:
            if kwarg is None:
                raise Unsupported('unexpected keyword arguments %s for %s (line %d)' % (sorted(extra), q,
                                                                                      getattr(node, 'lineno', 0)))
        if kwarg is not None:
            items = [(const_sv(k), v) for k, v in sorted(extra.items())]
            d = new_dict(st, items, Ty.STR, None)
            st.notes[('keys', tid(d.term))] = [k for k in sorted(extra)]
            env[kwarg] = d
        for name in pos + kwonly:
            if name not in env:
                if name not in defaults:
                    raise Unsupported('missing argument %s for %s (line %d)' % (name, q, getattr(node, 'lineno', 0)))
                d = defaults[name]
                if d[0] == 'py':
                    env[name] = self.lift_py(d[1], st)
                else:
                    env[name] = self.eval_default(d[1], d[2], st)
        return env

    def eval_default(self, node, modname, st):
        if isinstance(node, ast.Constant):
            return const_sv(node.value)
        if isinstance(node, ast.Name):
            v = self.global_value(modname, node.id, st)
            if v is not None:
                return v
        if isinstance(node, ast.UnaryOp) and isinstance(node.op, ast.USub) and isinstance(node.operand, ast.Constant):
            return const_sv(-node.operand.value)
        if isinstance(node, (ast.List, ast.Tuple)) and not node.elts:
            return new_list(st, [], kind=K_LIST if isinstance(node, ast.List) else K_TUPLE)
        if isinstance(node, ast.Dict) and not node.keys:
            return new_dict(st, [])
        raise Unsupported('default value %s' % ast.unparse(node))

    # ------------------------------------------------------------------ contracts at call sites
    def apply_contract(self, st, c, recv, args, kwargs, node):
        q = c.variant_of or c.qual
        k = self.call_ordinals.get(id(node), 0)
        env = self.bind(st, c, q, recv, args, kwargs, node)
        for (pname, pval), vq in c.variants.items():
            if pname in env and env[pname].has_py and env[pname].py == pval:
                c = SP.CONTRACTS[vq]
                break
            if pname in env and isinstance(env[pname].ty, Ty.TInst) and env[pname].ty.cls == pval:
                c = SP.CONTRACTS[vq]
                break
            if pname in env and isinstance(env[pname].ty, Ty.TCls) and env[pname].ty.name == pval:
                c = SP.CONTRACTS[vq]        # a class passed as an argument selects the variant specialised to it
                break
        self.used_contracts.add(c.qual)
        short = c.qual.split(':', 1)[1]
        # declared parameter types are part of the precondition
        for p, ty in c.types.items():
            if p in env:
                v = env[p]
                if not compat(v.ty, ty):
                    self.oblige(st, shape(st, v.term, ty), 'pre[type:%s]@call#%d(%s)' % (p, k, short), 'pre-of-callee')
                if not v.has_py and (isinstance(v.ty, Ty.TAny) or not compat(v.ty, ty)):
                    env[p] = SV(v.term, ty)
        modname = c.qual.split(':')[0]
        if not front_has_module(modname):
            modname = self.modname
        lets = {}
        pre = st
        sev = SP.SpecEval(pre, env, modname, old=None, result=None, extra=lets)
        for name, text in c.lets.items():
            lets[name] = sev.value(text)
        for lab, text in c.labelled(c.requires):
            g = sev.bool(text)
            st2 = st
            if sev.typing:
                st2 = st.copy()
                for f in sev.typing:
                    st2.assume(f)
            self.oblige(st2, g, 'pre[%s]@call#%d(%s)' % (lab, k, short), 'pre-of-callee')
            st.assume(g)        # proved separately; available to the rest of the path
        old = st.copy()
        normals, raises = [], []
        # exceptional outcome (may-raise): ONE outcome with a symbolic class, constrained by the disjunction of the
        # raises clauses (class in the clause's set and the clause's condition); handlers fork on the class only
        # where they distinguish it
        rids = SP.raise_ids(c, modname)
        if c.raises:
            e = st.copy()
            cid = fresh('exccls', IntS)
            alts, concrete = [], set()
            for exname, rspec in c.raises.items():
                when = rspec if isinstance(rspec, str) else rspec.get('when', 'True')
                clsq, ids = rids[exname]
                cond = SP.SpecEval(old, env, modname, extra=lets).bool(when)
                if z3.is_false(cond) or not ids:
                    continue
                if exname in ('Exception', 'BaseException'):
                    # "any exception": the class is NOT enumerated from the registry (a handler may name a class that is
                    # registered only later, e.g. a library's ParseError): any class id satisfies the clause
                    special = [front.cls_id('builtins:' + n) for n in ('KeyboardInterrupt', 'SystemExit', 'GeneratorExit')]
                    not_special = TRUE if exname == 'BaseException' else Not(Or(*[cid == i for i in special]))
                    alts.append(And(cid >= 0, not_special, cond))
                    concrete |= set(ids) | {-1, -2}
                else:
                    alts.append(And(Or(*[cid == i for i in ids]), cond))
                    concrete |= set(ids)
            e.assume(Or(*alts) if alts else FALSE)
            if alts and self.feasible(e):
                self.havoc(e, c, env, old, lets, modname)
                for exname, rspec in c.raises.items():
                    if isinstance(rspec, dict):
                        clsq, ids = rids[exname]
                        m = Or(*[cid == i for i in ids])
                        for lab, text in c.labelled(rspec.get('ensures', [])):
                            e.assume(Implies(m, SP.SpecEval(e, env, modname, old=old, extra=lets).bool(text)))
                a = alloc(e, K_INST)
                e.assume(CLS(a) == cid)
                if len(concrete) == 1:
                    only = front.id_cls(list(concrete)[0])
                    obj = SV(VRef(a), Ty.TInst(only))
                    e.assume(cid == list(concrete)[0])
                    exc = Exc(only, obj)
                else:
                    # least common registered base, for reporting only
                    obj = SV(VRef(a), Ty.ANY)
                    exc = Exc('builtins:BaseException', obj, cid=cid, exact=False)
                e.trace.append('call#%d(%s) raises' % (k, short))
                e.notes['calls'] = e.notes.get('calls', ()) + ((c.qual, 'raise', exc.clsq, exc.cid),)
                raises.append(Outcome('raise', e, exc=exc, site='call#%d' % k))
        # normal outcome
        n = st
        self.havoc(n, c, env, old, lets, modname)
        rterm = fresh('ret_' + short.split('.')[-1], Val)
        res = SV(rterm, c.returns)
        n.assume(shape(n, rterm, c.returns))
        for lab, text in c.labelled(list(c.ensures) + list(c.defines)):
            sev2 = SP.SpecEval(n, env, modname, old=old, result=res, extra=lets)
            n.assume(sev2.bool(text))
            for f in sev2.typing:
                n.assume(f)
        n.notes['calls'] = n.notes.get('calls', ()) + ((c.qual, 'ret', rterm, c.returns),)
        if self.feasible(n):
            normals.append((n, res))
        elif self.feasible(old) and not getattr(c, 'may_not_return', False):
            # vacuity guard: the call site is reachable but the callee's contract admits no normal return here
            self.eng.warnings.append('normal outcome of call#%d(%s) in %s is infeasible: contradictory contract?' % (k, short, self.fi.qual))
        return normals, raises

    def havoc(self, st, c, env, old, lets, modname):
        """forget everything the callee may modify"""
        for m in c.modifies:
            m = m.strip()
            if m.startswith('*.'):
                f = m[2:]
                st.heap[f] = fresh('H_' + f, FieldArr)
            elif m.startswith('list(') or m.startswith('dict('):
                target = SP.SpecEval(old, env, modname, extra=lets).value(m[5:-1])
                a = z3.simplify(va(val_of(target)))
                if m.startswith('list('):
                    st.L = z3.Store(st.L, a, fresh('lst', SeqVal))
                else:
                    st.DK = z3.Store(st.DK, a, fresh('dk', KeySet))
                    st.DV = z3.Store(st.DV, a, fresh('dv', KeyMap))
                    nsz = fresh('dsz', IntS)
                    st.assume(nsz >= 0)
                    st.DSZ = z3.Store(st.DSZ, a, nsz)
            elif m == 'lists':
                st.L = fresh('L', ListArr)
            elif m == 'dicts':
                st.DK, st.DV, st.DSZ = fresh('DK', DKArr), fresh('DV', DVArr), fresh('DSZ', IntArr)
            elif '.' in m:
                objtext, f = m.rsplit('.', 1)
                target = SP.SpecEval(old, env, modname, extra=lets).value(objtext)
                st.heap[f] = z3.Store(st.field(f), z3.simplify(va(val_of(target))), fresh('h_' + f, Val))
            else:
                raise Unsupported('modifies entry %r of %s' % (m, c.qual))
        if not c.pure:
            nn = fresh('next', IntS)
            st.assume(nn >= st.nxt)
            st.nxt = nn

    # ------------------------------------------------------------------ inlining
    def inline_call(self, st, q, recv, args, kwargs, node, c):
        fi = self.eng.nested.get(q, (None,))[0] or front.find_function(q)
        self.inlined.add(q)
        depth = getattr(self, '_inline_depth', 0)
        if depth > 6:
            raise Unsupported('inlining depth exceeded at %s' % q)
        sub = Exec(self.eng, fi, c or SP.Contract(q))
        sub._inline_depth = depth + 1
        sub.old_state = self.old_state
        sub.let_values = {}
        sub.local_names = sub.compute_local_names()
        env = self.bind(st, c, q, recv, args, kwargs, node)
        if c is not None:
            for p, ty in c.types.items():
                if p in env and isinstance(env[p].ty, Ty.TAny):
                    env[p] = SV(env[p].term, ty)
        saved_env = st.env
        # closures read the *current* values of the enclosing locals
        st.env = dict(saved_env, **env) if q in self.eng.nested else env
        outs = sub.exec_block(fi.node.body, st)
        self.obligations.extend(_prefix(sub.obligations, q.split(':')[1]))
        self.inlined |= sub.inlined
        self.used_contracts |= sub.used_contracts
        normals, raises = [], []
        for o in outs:
            o.st.env = dict(saved_env)
            if o.kind == 'return':
                normals.append((o.st, o.val))
            elif o.kind == 'normal':
                normals.append((o.st, const_sv(None)))
            elif o.kind == 'raise':
                raises.append(o)
            else:
                raise Unsupported('break/continue escaping an inlined function')
        return normals, raises

    def compute_local_names(self):
        from .execcore import assigned_names
        names = assigned_names(self.fi.node.body)
        a = self.fi.node.args
        for x in a.posonlyargs + a.args + a.kwonlyargs:
            names.add(x.arg)
        if a.vararg:
            names.add(a.vararg.arg)
        if a.kwarg:
            names.add(a.kwarg.arg)
        for n in ast.walk(self.fi.node):
            if isinstance(n, ast.FunctionDef) and n is not self.fi.node:
                names.add(n.name)
        return names


_AUTO_INLINE = {}


def _auto_inlinable(q):
    if q not in _AUTO_INLINE:
        ok = False
        if q.startswith(front.PKG):
            try:
                fi = front.find_function(q)
                ok = not any(isinstance(n, (ast.While, ast.ListComp, ast.DictComp, ast.SetComp, ast.GeneratorExp,
                                            ast.Yield, ast.YieldFrom, ast.Lambda)) or
                             (isinstance(n, ast.For) and not isinstance(n.iter, (ast.Tuple, ast.List)))     # display loops are unrolled
                             for n in ast.walk(fi.node)) \
                    and (fi.node.end_lineno - fi.node.lineno) <= 40
            except Exception:
                ok = False
        _AUTO_INLINE[q] = ok
    return _AUTO_INLINE[q]


def _prefix(obls, tag):
    for o in obls:
        o.name = '%s<inlined %s>' % (o.name, tag)
    return obls


def front_has_module(modname):
    try:
        front.module_obj(modname)
        return True
    except Exception:
        return False
