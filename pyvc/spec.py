"""Contract registry and the specification language (DESIGN 2.5): clause bodies are Python
expressions, evaluated here to SMT terms with *logical* (total, exception-free) semantics."""
import ast
import z3
from .sorts import *      # noqa
from . import types as Ty
from . import front
from .front import Unsupported
from .state import sel_L, in_pre
from .state import (SV, State, const_sv, truthy, shape, field_type, GHOSTS, ghost, KIND, CLS, cls_in,
                    int_of, str_of, val_of, elem_type, declare_class)

CONTRACTS = {}


class Contract(object):
    def __init__(self, qual, **kw):
        self.qual = qual
        self.types = {k: Ty.parse_type(v) for k, v in kw.pop('types', {}).items()}
        self.returns = Ty.parse_type(kw.pop('returns', 'Any'))
        self.requires = list(kw.pop('requires', []))
        self.ensures = list(kw.pop('ensures', []))          # list of str or (label, str)
        self.raises = kw.pop('raises', {})                  # class name -> condition str | {'when':..,'ensures':[..]}
        self.modifies = list(kw.pop('modifies', []))
        self.loops = kw.pop('loops', {})
        self.comps = kw.pop('comps', {})
        self.trusted = kw.pop('trusted', False)             # external / assumed: never verified
        self.assumptions = list(kw.pop('assumptions', []))  # E-* / A-* items this contract rests on
        self.inline = kw.pop('inline', False)
        self.params = kw.pop('params', None)                # for externals: parameter names (+defaults)
        self.defaults = kw.pop('defaults', {})
        self.clauses_from = kw.pop('clauses_from', {})      # property id -> labels of clauses copied from its statement
        self.props = kw.pop('props', [])
        self.local_types = {k: Ty.parse_type(v) for k, v in kw.pop('local_types', {}).items()}
        self.lets = kw.pop('lets', {})                      # name -> spec expr (macro, evaluated in pre-state)
        self.hints = kw.pop('hints', {})
        self.pure = kw.pop('pure', False)
        self.nothrow_builtin = kw.pop('nothrow', False)
        self.result_fresh = kw.pop('result_fresh', False)
        self.note = kw.pop('note', '')
        self.variant_of = kw.pop('variant_of', None)
        self.merge_exits = kw.pop('merge_exits', True)  # merge exits through the same site into one obligation set
        self.feas_ms = kw.pop('feas_ms', None)          # feasibility-check budget per fork (unknown = feasible)
        self.defines = list(kw.pop('defines', []))     # definitional links to ghost symbols: assumed by callers, not checkable
        self.consts = kw.pop('consts', {})              # parameter -> concrete Python value (specialised variant)
        # field name -> narrower type than the class declaration, valid inside this function: every read is an OBLIGATION
        # (narrow[field]@line) proved from the precondition and the frames, then assumed
        self.field_types = {k: Ty.parse_type(v) for k, v in kw.pop('field_types', {}).items()}
        self.variants = kw.pop('variants', {})          # (param, value) -> qual of the specialised contract
        if kw:
            raise TypeError('unknown contract keys %s for %s' % (sorted(kw), qual))

    def labelled(self, lst):
        out = []
        for i, c in enumerate(lst):
            if isinstance(c, tuple):
                out.append((c[0], c[1]))
            else:
                out.append((str(i), c))
        return out


_raise_ids_cache = {}


def raise_ids(c, modname):
    """class ids covered by each raises entry: an entry for class E covers E's subclasses *except* those covered
    by an entry for a strict subclass of E (the most specific entry decides)"""
    key = (c.qual, modname, len(front._cls_ids))
    if key in _raise_ids_cache:
        return _raise_ids_cache[key]
    quals = {ex: front.resolve_exc_name(modname, ex) for ex in c.raises}
    out = {}
    _raise_ids_cache[key] = out
    for ex, q in quals.items():
        ids = set(front.subclass_ids(q))
        for ex2, q2 in quals.items():
            if q2 != q and front.is_subclass(q2, q):
                ids -= set(front.subclass_ids(q2))
        out[ex] = (q, sorted(ids))
    return out


DUPLICATES = []


def contract(qual, **kw):
    replace = kw.pop('replace', False)
    c = Contract(qual, **kw)
    if qual in CONTRACTS and not replace:
        # two sidecar files stating a contract for the same function: the later one would silently win
        DUPLICATES.append(qual)
    CONTRACTS[qual] = c
    return c


# --------------------------------------------------------------------------------------------

class SpecError(Exception):
    pass


STR_FUNCS = {}      # name -> z3 function on strings (A-STR), filled by builtins module


def to_bool(st, x):
    if isinstance(x, SV):
        return truthy(st, x)
    if isinstance(x, bool):
        return z3.BoolVal(x)
    if x is None:
        return FALSE
    if isinstance(x, int):
        return z3.BoolVal(x != 0)
    if isinstance(x, str):
        return z3.BoolVal(len(x) > 0)
    if z3.is_expr(x):
        if x.sort() == BoolS:
            return x
        if x.sort() == IntS:
            return x != 0
        if x.sort() == StrS:
            return z3.Length(x) > 0
        if x.sort() == SeqVal:
            return z3.Length(x) > 0
        if x.sort() == Val:
            return truthy(st, SV(x, Ty.ANY))
    raise SpecError('no truth value for %r' % (x,))


def kind_of(x):
    """'val' | 'bool' | 'int' | 'str' | 'seq' | 'py'"""
    if hasattr(x, 'seq'):
        return 'seq'
    if isinstance(x, SV):
        return 'val'
    if z3.is_expr(x):
        s = x.sort()
        return {BoolS: 'bool', IntS: 'int', StrS: 'str', SeqVal: 'seq', Val: 'val'}.get(s, 'other')
    return 'py'


class SpecEval(object):
    def __init__(self, st, env, modname, old=None, result=None, extra=None):
        self.st, self.env, self.modname, self.old, self.result = st, env, modname, old, result
        self.extra = extra or {}       # bound quantifier variables / lets
        self.typing = []               # typed-heap facts (E-PARSE / declared invariants) about the fields read

    # ---- entry points
    def bool(self, text):
        return to_bool(self.st, self.ev(_parse(text)))

    def value(self, text):
        return self.ev(_parse(text))

    # ---- evaluation
    def ev(self, n):
        m = getattr(self, 'ev_' + n.__class__.__name__, None)
        if m is None:
            raise SpecError('spec construct %s not supported: %s' % (n.__class__.__name__, ast.unparse(n)))
        return m(n)

    def ev_Expression(self, n):
        return self.ev(n.body)

    def ev_Constant(self, n):
        return n.value

    def ev_Name(self, n):
        name = n.id
        if name in self.extra:
            return self.extra[name]
        if name == 'result':
            if self.result is None:
                raise SpecError('`result` used where there is none')
            return self.result
        if name in self.env:
            return self.env[name]
        if name in ('True', 'False', 'None'):
            return {'True': True, 'False': False, 'None': None}[name]
        if name in GHOSTS and not GHOSTS[name][1]:
            return GHOSTS[name][0]
        kind, payload = front.resolve_global(self.modname, name)
        if kind == 'const':
            return payload
        if kind == 'class':
            return SV(VCls(z3.IntVal(front.cls_id(payload))), Ty.TCls(payload), None, False)
        if kind == 'object':
            from .state import GLOBAL_OBJECTS, global_object_sv
            q = '%s:%s' % (self.modname, name)
            if q in GLOBAL_OBJECTS:
                return global_object_sv(q)
        raise SpecError('unknown name %s in spec (module %s)' % (name, self.modname))

    def ev_Attribute(self, n):
        base = self.ev(n.value)
        return self.getfield(base, n.attr)

    def getfield(self, base, attr):
        if isinstance(base, SV) and base.has_py and base.py is None:
            base = None
        if base is None:
            return None         # total semantics: attribute of the constant None is None
        if not isinstance(base, SV):
            raise SpecError('attribute %s of non-object %r' % (attr, base))
        ty = Ty.strip_opt(base.ty)
        fty = Ty.ANY
        term = self.st.field(attr)[va(base.term)]
        if isinstance(ty, Ty.TInst):
            ft = field_type(ty.cls, attr)
            if ft is not None:
                fty = ft
                if not self.extra_has_bound():
                    a = va(base.term)
                    hp = getattr(self.st, 'heap', {})
                    untouched = attr not in hp or hp[attr].eq(z3.Const('H0_' + attr, FieldArr))
                    self.typing.append(Implies(And(is_ref(base.term), a >= 0, a < self.st.nxt, KIND(a) == K_INST,
                                                   cls_in(CLS(a), ty.cls)), shape(self.st, term, ft, pre=in_pre(untouched, a))))
        return SV(term, fty)

    def extra_has_bound(self):
        """inside a quantifier the fact would mention a bound variable: skipped"""
        return any(z3.is_expr(v) and z3.is_const(v) and v.decl().name().startswith('q_') for v in self.extra.values()) or \
            any(isinstance(v, SV) and z3.is_const(v.term) and v.term.decl().name().startswith('q_') for v in self.extra.values())

    def ev_Subscript(self, n):
        base = self.ev(n.value)
        if isinstance(n.slice, ast.Slice):
            lo = self.ev(n.slice.lower) if n.slice.lower else 0
            hi = self.ev(n.slice.upper) if n.slice.upper else None
            return self.slice(base, lo, hi)
        idx = self.ev(n.slice)
        return self.index(base, idx)

    def seqterm(self, base):
        if hasattr(base, 'seq'):
            return base.seq
        if isinstance(base, SV):
            return sel_L(self.st, va(base.term))
        if z3.is_expr(base) and base.sort() == SeqVal:
            return base
        raise SpecError('not a sequence: %r' % (base,))

    def index(self, base, idx):
        if hasattr(base, 'seq'):
            return SV(base.seq[int_of(idx)], getattr(base, 'elty', Ty.ANY))
        if isinstance(base, (list, tuple)):
            if isinstance(idx, int):
                return base[idx]
            raise SpecError('symbolic index into a constant sequence')
        if isinstance(base, dict):
            if isinstance(idx, (str, int)):
                return base[idx]
            raise SpecError('symbolic key into a constant dict')
        if isinstance(base, SV):
            ty = Ty.strip_opt(base.ty)
            if isinstance(ty, Ty.TDict):
                vterm = self.st.DV[va(base.term)][val_of(idx)]
                if not self.extra_has_bound():
                    # closed heap: a reference stored in a mapping points to an allocated object
                    dv = getattr(self.st, 'DV', None)
                    untouched = dv is not None and dv.eq(z3.Const('DV0', DVArr))
                    self.typing.append(Implies(self.st.DK[va(base.term)][val_of(idx)], shape(self.st, vterm, ty.v, pre=in_pre(untouched, va(base.term)))))
                return SV(vterm, ty.v)
            if isinstance(ty, Ty.TStr):
                return z3.SubString(vs(base.term), int_of(idx), 1)
            if isinstance(ty, Ty.TTuple) and isinstance(idx, int):
                return SV(sel_L(self.st, va(base.term))[z3.IntVal(idx)], ty.ts[idx])
            i = int_of(idx)
            seq = sel_L(self.st, va(base.term))
            if isinstance(idx, int) and idx < 0:
                i = z3.Length(seq) + idx
            return SV(seq[i], elem_type(ty))
        if z3.is_expr(base) and base.sort() == SeqVal:
            return SV(base[int_of(idx)], Ty.ANY)
        if z3.is_expr(base) and z3.is_array(base):
            r = base[val_of(idx)]
            return SV(r, Ty.ANY) if r.sort() == Val else r
        if z3.is_expr(base) and base.sort() == StrS:
            return z3.SubString(base, int_of(idx), 1)
        raise SpecError('cannot index %r' % (base,))

    def slice(self, base, lo, hi):
        if kind_of(base) == 'str' or (isinstance(base, SV) and isinstance(Ty.strip_opt(base.ty), Ty.TStr)):
            s = str_of(base)
            lo = int_of(lo)
            hi = int_of(hi) if hi is not None else z3.Length(s)
            return z3.SubString(s, lo, hi - lo)
        seq = self.seqterm(base)
        lo = int_of(lo)
        hi = int_of(hi) if hi is not None else z3.Length(seq)
        return z3.Extract(seq, lo, hi - lo)

    def ev_UnaryOp(self, n):
        v = self.ev(n.operand)
        if isinstance(n.op, ast.Not):
            return Not(to_bool(self.st, v))
        if isinstance(n.op, ast.USub):
            return -int_of(v)
        raise SpecError('unary op')

    def ev_BoolOp(self, n):
        vals = [to_bool(self.st, self.ev(v)) for v in n.values]
        return And(*vals) if isinstance(n.op, ast.And) else Or(*vals)

    def ev_IfExp(self, n):
        c = to_bool(self.st, self.ev(n.test))
        a, b = self.ev(n.body), self.ev(n.orelse)
        return self.ite(c, a, b)

    def ite(self, c, a, b):
        ka, kb = kind_of(a), kind_of(b)
        if ka == kb == 'val' or 'val' in (ka, kb):
            ta = a.ty if isinstance(a, SV) else None
            tb = b.ty if isinstance(b, SV) else None
            return SV(z3.If(c, val_of(a), val_of(b)), Ty.join(ta, tb) if ta and tb else Ty.ANY)
        if 'bool' in (ka, kb) or (isinstance(a, bool) and isinstance(b, bool)):
            return z3.If(c, to_bool(self.st, a), to_bool(self.st, b))
        if 'int' in (ka, kb) or (isinstance(a, int) and isinstance(b, int)):
            return z3.If(c, int_of(a), int_of(b))
        if 'str' in (ka, kb) or (isinstance(a, str) and isinstance(b, str)):
            return z3.If(c, str_of(a), str_of(b))
        if ka == kb == 'seq':
            return z3.If(c, a, b)
        return SV(z3.If(c, val_of(a), val_of(b)), Ty.ANY)

    def ev_BinOp(self, n):
        a, b = self.ev(n.left), self.ev(n.right)
        if isinstance(n.op, ast.Add):
            if self.is_strlike(a) or self.is_strlike(b):
                return z3.Concat(str_of(a), str_of(b))
            if kind_of(a) == 'seq' or kind_of(b) == 'seq':
                return z3.Concat(self.seqterm(a), self.seqterm(b))
            return int_of(a) + int_of(b)
        if isinstance(n.op, ast.Sub):
            return int_of(a) - int_of(b)
        if isinstance(n.op, ast.Mult):
            return int_of(a) * int_of(b)
        raise SpecError('binary operator %s' % n.op.__class__.__name__)

    def is_strlike(self, x):
        if isinstance(x, str):
            return True
        if isinstance(x, SV):
            return isinstance(Ty.strip_opt(x.ty), Ty.TStr)
        return kind_of(x) == 'str'

    def ev_Compare(self, n):
        left = self.ev(n.left)
        out = []
        for op, rn in zip(n.ops, n.comparators):
            right = self.ev(rn)
            out.append(self.compare(op, left, right))
            left = right
        return And(*out)

    def equal(self, a, b):
        if isinstance(a, SV) and a.has_py and isinstance(a.py, front.CONST_TYPES):
            a = a.py
        if isinstance(b, SV) and b.has_py and isinstance(b.py, front.CONST_TYPES):
            b = b.py
        ka, kb = kind_of(a), kind_of(b)
        if ka == 'other' and kb == 'other' and a.sort() == b.sort():
            return a == b           # whole-array comparison (dict key sets / value maps)
        if ka == 'py' and kb == 'py':
            return z3.BoolVal(a == b)
        if ka == 'seq' or kb == 'seq':
            return self.seqterm(a) == self.seqterm(b)
        if ka in ('int',) or kb in ('int',):
            if ka == 'val' and not isinstance(a.ty, (Ty.TInt, Ty.TBool)):
                return a.term == val_of(b)
            if kb == 'val' and not isinstance(b.ty, (Ty.TInt, Ty.TBool)):
                return val_of(a) == b.term
            return int_of(a) == int_of(b)
        if ka == 'str' or kb == 'str':
            if ka == 'val' and not isinstance(a.ty, Ty.TStr):
                return a.term == val_of(b)
            if kb == 'val' and not isinstance(b.ty, Ty.TStr):
                return val_of(a) == b.term
            return str_of(a) == str_of(b)
        if ka == 'bool' or kb == 'bool':
            if ka == 'val' or kb == 'val':
                return val_of(a) == val_of(b)
            return to_bool(self.st, a) == to_bool(self.st, b)
        return val_of(a) == val_of(b)

    def compare(self, op, a, b):
        if isinstance(op, (ast.Eq, ast.Is)):
            return self.equal(a, b)
        if isinstance(op, (ast.NotEq, ast.IsNot)):
            return Not(self.equal(a, b))
        if isinstance(op, (ast.Lt, ast.LtE, ast.Gt, ast.GtE)):
            x, y = int_of(a), int_of(b)
            return {ast.Lt: x < y, ast.LtE: x <= y, ast.Gt: x > y, ast.GtE: x >= y}[type(op)]
        if isinstance(op, ast.In):
            return self.contains(b, a)
        if isinstance(op, ast.NotIn):
            return Not(self.contains(b, a))
        raise SpecError('comparison')

    def contains(self, cont, x):
        if isinstance(cont, (list, tuple, set, frozenset)):
            return Or(*[self.equal(x, c) for c in cont])
        if isinstance(cont, dict):
            return Or(*[self.equal(x, c) for c in cont.keys()])
        if isinstance(cont, str) or kind_of(cont) == 'str':
            return z3.Contains(str_of(cont), str_of(x))
        if kind_of(cont) == 'seq':
            return z3.Contains(self.seqterm(cont), z3.Unit(val_of(x)))
        if isinstance(cont, SV):
            ty = Ty.strip_opt(cont.ty)
            if isinstance(ty, (Ty.TDict, Ty.TSet)):
                return self.st.DK[va(cont.term)][val_of(x)]
            if isinstance(ty, Ty.TStr):
                return z3.Contains(vs(cont.term), str_of(x))
            if isinstance(ty, (Ty.TList, Ty.TTuple)):
                return z3.Contains(sel_L(self.st, va(cont.term)), z3.Unit(val_of(x)))
            # unknown static type: decide by allocation kind
            a = va(cont.term)
            return z3.If(Or(KIND(a) == K_DICT, KIND(a) == K_SET), self.st.DK[a][val_of(x)],
                         z3.Contains(self.st.L[a], z3.Unit(val_of(x))))
        raise SpecError('membership in %r' % (cont,))

    def ev_Tuple(self, n):
        return tuple(self.ev(e) for e in n.elts)

    def ev_List(self, n):
        vals = [self.ev(e) for e in n.elts]
        if all(kind_of(v) == 'py' for v in vals):
            return vals
        seq = z3.Empty(SeqVal)
        for v in vals:
            seq = z3.Concat(seq, z3.Unit(val_of(v)))
        return seq

    def ev_Lambda(self, n):
        return n

    def ev_Call(self, n):
        if isinstance(n.func, ast.Name):
            fname = n.func.id
            h = getattr(self, 'fn_' + fname, None)
            if h is not None:
                return h(n)
            if fname in GHOSTS:
                f, argsorts, res = GHOSTS[fname]
                args = [self.ev(a) for a in n.args]
                if len(args) != len(argsorts):
                    raise SpecError('ghost %s expects %d arguments' % (fname, len(argsorts)))
                zs = []
                for a, s in zip(args, argsorts):
                    zs.append({'Val': val_of, 'Int': int_of, 'Str': str_of, 'Bool': lambda x: to_bool(self.st, x),
                               'Seq': self.seqterm, 'KeySet': lambda x: x, 'KeyMap': lambda x: x}[s](a))
                r = f(*zs)
                if res == 'Val':
                    return SV(r, Ty.ANY)
                return r
            if fname in STR_FUNCS:
                args = [str_of(self.ev(a)) for a in n.args]
                return STR_FUNCS[fname](*args)
            if fname in MACROS:
                params, body = MACROS[fname]
                args = [self.ev(a) for a in n.args]
                sub = SpecEval(self.st, self.env, self.modname, self.old, self.result,
                               dict(self.extra, **dict(zip(params, args))))
                sub.typing = self.typing
                return sub.ev(_parse(body))
        if isinstance(n.func, ast.Attribute):
            base = self.ev(n.func.value)
            m = n.func.attr
            if m == 'strip' and not n.args:
                return STR_FUNCS['strip'](str_of(base))
            if m == 'lower' and not n.args:
                return STR_FUNCS['lower'](str_of(base))
            if m == 'get' and isinstance(base, SV):
                k = val_of(self.ev(n.args[0]))
                d = self.ev(n.args[1]) if len(n.args) > 1 else None
                a = va(base.term)
                return SV(z3.If(self.st.DK[a][k], self.st.DV[a][k], val_of(d)), Ty.ANY)
        raise SpecError('call not supported in spec: %s' % ast.unparse(n))

    # ---- built-in spec functions
    def fn_old(self, n):
        if self.old is None:
            raise SpecError('old() outside a two-state context')
        sub = SpecEval(self.old, self.env, self.modname, None, None, self.extra)
        sub.typing = self.typing
        return sub.ev(n.args[0])

    def fn_implies(self, n):
        a = to_bool(self.st, self.ev(n.args[0]))
        b = to_bool(self.st, self.ev(n.args[1]))
        return Implies(a, b)

    def fn_iff(self, n):
        return to_bool(self.st, self.ev(n.args[0])) == to_bool(self.st, self.ev(n.args[1]))

    def fn_ite(self, n):
        return self.ite(to_bool(self.st, self.ev(n.args[0])), self.ev(n.args[1]), self.ev(n.args[2]))

    def fn_truthy(self, n):
        return to_bool(self.st, self.ev(n.args[0]))

    def fn_bool(self, n):
        return to_bool(self.st, self.ev(n.args[0]))

    def _quant(self, n, is_forall):
        lam = n.args[0]
        if not isinstance(lam, ast.Lambda):
            raise SpecError('quantifier needs a lambda')
        names = [a.arg for a in lam.args.args]
        sort = 'Int'
        if len(n.args) >= 3:
            lo, hi = int_of(self.ev(n.args[1])), int_of(self.ev(n.args[2]))
        else:
            lo = hi = None
            if len(n.args) == 2:
                sort = self.ev(n.args[1])
        if BOUND[0] is not None and lo is not None and len(names) == 1:
            # refutation mode: finite expansion, sound under the recorded side constraint (range inside [0, K))
            K = BOUND[0]
            BOUND_SIDE.append(And(lo >= 0, hi <= K))
            parts = []
            for k in range(K):
                kk = z3.IntVal(k)
                sub = SpecEval(self.st, self.env, self.modname, self.old, self.result, dict(self.extra, **{names[0]: kk}))
                b = to_bool(self.st, sub.ev(lam.body))
                rng = And(lo <= kk, kk < hi)
                parts.append(Implies(rng, b) if is_forall else And(rng, b))
            return And(*parts) if is_forall else Or(*parts)
        bound = []
        extra = dict(self.extra)
        sorts = sort if isinstance(sort, (list, tuple)) else [sort] * len(names)
        # deterministic bound-variable names (name + nesting depth): the same clause over the same state terms yields the
        # same AST, so an assumed invariant and the identical goal cancel syntactically
        depth = sum(1 for k in self.extra if k.startswith('__q'))
        extra['__q%d' % depth] = True
        for nm, sort in zip(names, sorts):
            qn = 'q_%s_%d' % (nm, depth)
            if sort == 'Val':
                c = z3.Const(qn + 'v', Val)
                extra[nm] = SV(c, Ty.ANY)
            elif sort == 'Str':
                c = z3.Const(qn + 's', StrS)
                extra[nm] = c
            elif sort == 'Seq':
                c = z3.Const(qn + 'q', SeqVal)
                extra[nm] = c
            elif sort == 'Bool':
                c = z3.Const(qn + 'b', BoolS)
                extra[nm] = c
            elif sort == 'KeySet':
                c = z3.Const(qn + 'k', KeySet)
                extra[nm] = c
            elif sort == 'KeyMap':
                c = z3.Const(qn + 'm', KeyMap)
                extra[nm] = c
            else:
                c = z3.Const(qn + 'i', IntS)
                extra[nm] = c
            bound.append(c)
        sub = SpecEval(self.st, self.env, self.modname, self.old, self.result, extra)
        body = to_bool(self.st, sub.ev(lam.body))
        if lo is not None:
            rng = And(*[And(lo <= c, c < hi) for c in bound])
            body = Implies(rng, body) if is_forall else And(rng, body)
        return z3.ForAll(bound, body) if is_forall else z3.Exists(bound, body)

    def fn_forall(self, n):
        return self._quant(n, True)

    def fn_exists(self, n):
        return self._quant(n, False)

    def fn_len(self, n):
        v = self.ev(n.args[0])
        if hasattr(v, 'seq'):
            return z3.Length(v.seq)
        if isinstance(v, (list, tuple, str, dict)):
            return len(v)
        k = kind_of(v)
        if k == 'str':
            return z3.Length(v)
        if k == 'seq':
            return z3.Length(v)
        ty = Ty.strip_opt(v.ty)
        if isinstance(ty, Ty.TStr):
            return z3.Length(vs(v.term))
        if isinstance(ty, (Ty.TDict, Ty.TSet)):
            return self.st.DSZ[va(v.term)]
        return z3.Length(sel_L(self.st, va(v.term)))

    def fn_seq(self, n):
        return self.seqterm(self.ev(n.args[0]))

    def fn_is_none(self, n):
        return is_none(val_of(self.ev(n.args[0])))

    def fn_is_str(self, n):
        return is_str(val_of(self.ev(n.args[0])))

    def fn_is_int(self, n):
        return is_int(val_of(self.ev(n.args[0])))

    def fn_is_bool(self, n):
        return is_bool(val_of(self.ev(n.args[0])))

    def fn_is_ref(self, n):
        return is_ref(val_of(self.ev(n.args[0])))

    def fn_typed(self, n):
        v = self.ev(n.args[0])
        t = Ty.parse_type(self.ev(n.args[1]))
        return shape(self.st, val_of(v), t)

    def fn_as_type(self, n):
        """re-type a value for the rest of the expression (no assumption)"""
        v = self.ev(n.args[0])
        return SV(val_of(v), Ty.parse_type(self.ev(n.args[1])))

    def fn_isinstance(self, n):
        v = self.ev(n.args[0])
        c = self.ev(n.args[1])
        if isinstance(c, str):
            q = c
        elif isinstance(c, SV) and isinstance(c.ty, Ty.TCls):
            q = c.ty.name
        else:
            raise SpecError('isinstance needs a class')
        t = val_of(v)
        return And(is_ref(t), KIND(va(t)) == K_INST, cls_in(CLS(va(t)), q))

    def fn_fresh(self, n):
        v = self.ev(n.args[0])
        if self.old is None:
            raise SpecError('fresh() outside a two-state context')
        return And(is_ref(val_of(v)), va(val_of(v)) >= self.old.nxt)

    def fn_allocated_before(self, n):
        v = self.ev(n.args[0])
        return And(is_ref(val_of(v)), va(val_of(v)) < (self.old or self.st).nxt)

    def fn_str_of(self, n):
        return str_of(self.ev(n.args[0]))

    def fn_int_of(self, n):
        return int_of(self.ev(n.args[0]))

    def fn_vstr(self, n):
        return SV(VStr(str_of(self.ev(n.args[0]))), Ty.STR)

    def fn_vbytes(self, n):
        return SV(VBytes(str_of(self.ev(n.args[0]))), Ty.BYTES)

    def fn_is_bytes(self, n):
        return is_bytes(val_of(self.ev(n.args[0])))

    def fn_urlpayload(self, n):
        v = val_of(self.ev(n.args[0]))
        return z3.If(is_bytes(v), vy(v), STR_FUNCS['utf8'](vs(v)))

    def fn_substr(self, n):
        s_, lo, ln = str_of(self.ev(n.args[0])), int_of(self.ev(n.args[1])), int_of(self.ev(n.args[2]))
        return z3.SubString(s_, lo, ln)

    def fn_bytes_of(self, n):
        return vy(val_of(self.ev(n.args[0])))

    def fn_vb(self, n):
        return vb(val_of(self.ev(n.args[0])))

    def fn_vint(self, n):
        return SV(VInt(int_of(self.ev(n.args[0]))), Ty.INT)

    def fn_has_key(self, n):
        d = self.ev(n.args[0])
        k = self.ev(n.args[1])
        return self.st.DK[va(d.term)][val_of(k)]

    def fn_keyset(self, n):
        d = self.ev(n.args[0])
        return self.st.DK[va(d.term)]

    def fn_valmap(self, n):
        d = self.ev(n.args[0])
        return self.st.DV[va(d.term)]

    def fn_same_dict(self, n):
        """same_dict(d1, old(d2))-style comparison of whole dict contents"""
        a = self.ev(n.args[0])
        b = n.args[1]
        return None

    def fn_cls_of(self, n):
        v = self.ev(n.args[0])
        return CLS(va(val_of(v)))

    def fn_global_object(self, n):
        """global_object('module:NAME'): a declared module-level object of another module"""
        from .state import GLOBAL_OBJECTS, global_object_sv
        q = self.ev(n.args[0])
        if q not in GLOBAL_OBJECTS:
            raise SpecError('no declared global object %s' % q)
        return global_object_sv(q)

    def fn_regex_object(self, n):
        """regex_object('module.NAME'): the compiled pattern held in that module / class attribute (same term as the engine uses)"""
        key = self.ev(n.args[0])
        a = z3.Int('g_re_' + ''.join(ch if ch.isalnum() else '_' for ch in key))
        return SV(VRef(a), Ty.TInst('re:Pattern'))

    def fn_class_is(self, n):
        """class_is(x, 'module:Class'): the VALUE x is that class object"""
        v = self.ev(n.args[0])
        q = self.ev(n.args[1])
        return val_of(v) == VCls(z3.IntVal(front.cls_id(front.resolve_exc_name(self.modname, q))))

    def fn_cls_id(self, n):
        c = self.ev(n.args[0])
        if isinstance(c, str):
            return z3.IntVal(front.cls_id(front.resolve_exc_name(self.modname, c)))
        if isinstance(c, SV) and isinstance(c.ty, Ty.TCls) and c.ty.name:
            return z3.IntVal(front.cls_id(c.ty.name))
        return vc(val_of(c))

    def fn_contains(self, n):
        return self.contains(self.ev(n.args[0]), self.ev(n.args[1]))

    def fn_prefixof(self, n):
        return z3.PrefixOf(str_of(self.ev(n.args[0])), str_of(self.ev(n.args[1])))

    def fn_suffixof(self, n):
        return z3.SuffixOf(str_of(self.ev(n.args[0])), str_of(self.ev(n.args[1])))

    def fn_concat(self, n):
        return z3.Concat(*[str_of(self.ev(a)) for a in n.args])


MACROS = {}
BOUND = [None]       # refutation mode: expand integer-range quantifiers over 0..K-1
BOUND_SIDE = []      # side constraints under which the expansion is exact


def macro(name, params, body):
    """named spec abbreviation: macro('names', ['r','me'], 'exists(lambda j: ..., 0, len(r.audience))')"""
    MACROS[name] = (list(params), body)


_parse_cache = {}


def _parse(text):
    if text not in _parse_cache:
        try:
            _parse_cache[text] = ast.parse(text.strip(), mode='eval')
        except SyntaxError as e:
            raise SpecError('cannot parse spec %r: %s' % (text, e))
    return _parse_cache[text]
