"""Back ends: every obligation becomes one self-contained SMT-LIB2 text, discharged by a portfolio
z3 5.x (API) -> cvc5 (CLI).  unsat = discharged; sat only from z3 with a model.
z3 4.8.12 was removed from the portfolio: it answered `unsat` on a satisfiable sequence query (see DESIGN, Changes)."""
import os
import subprocess
import tempfile
import time
import multiprocessing as mp
import z3
from .sorts import *      # noqa
from . import builtins as BI

OUT = os.path.join(os.path.dirname(os.path.dirname(os.path.abspath(__file__))), 'out')

import shutil as _sh
Z3NEW = _sh.which('z3-new') or '/opt/veriftools/pyvenv/bin/z3'
BUDGETS = {'quick': (12000, 30, 0), 'thorough': (30000, 90, 0), 'screen': (4000, 0, 0), 'z3first': (12000, 0, 0), 'cvc5only': (0, 30, 0)}    # screen: z3 only (model search)


def used_names(exprs):
    seen, names = set(), set()
    stack = list(exprs)
    while stack:
        e = stack.pop()
        if e.get_id() in seen:
            continue
        seen.add(e.get_id())
        if z3.is_app(e):
            names.add(e.decl().name())
            stack.extend(e.children())
        elif z3.is_quantifier(e):
            stack.append(e.body())
    return names


def ground_apps(exprs, name):
    seen, out = set(), []
    stack = list(exprs)
    while stack:
        e = stack.pop()
        if e.get_id() in seen:
            continue
        seen.add(e.get_id())
        if z3.is_app(e):
            if e.decl().name() == name and e.num_args() > 0:
                out.append(e)
            stack.extend(e.children())
        elif z3.is_quantifier(e):
            pass        # terms under binders are not ground
    return out


def _portable(text):
    """z3's simplifier splits seq.nth into seq.nth_i (index in range) / seq.nth_u (out of range), which only z3 parses;
    both are seq.nth restricted to a sub-domain, so writing seq.nth back is equivalent"""
    return text.replace('seq.nth_i ', 'seq.nth ').replace('seq.nth_u ', 'seq.nth ')


def to_smt2_bounded(assumptions, goal):
    """refutation mode: quantified A-STR axioms are replaced by their instances on the ground terms present"""
    fs = list(assumptions) + [z3.Not(goal)]
    inst = []
    for name, gen in BI.AX_INST.items():
        for app in ground_apps(fs, name):
            try:
                inst.extend(gen(*app.children()))
            except Exception:
                pass
    gax = ghost_axiom_instances(fs)
    s = z3.Solver()
    s.add(*inst)
    s.add(*[f for _, f in gax])
    s.add(*fs)
    return _portable(s.to_smt2()), ['ground instances only'] + [l for l, _ in gax]


_gax_cache = {}


OWNER = [None]       # short name of the function whose obligation is being encoded (for opaque / revealed definitions)


def ghost_axioms(names):
    """closed assumptions (E-* items) attached to the ghost predicates an obligation mentions"""
    from .state import GHOST_AXIOMS, State, REVEAL
    from . import spec as SP
    out = []
    for g in sorted(GHOST_AXIOMS):
        if g in names:
            for label, text, modname in GHOST_AXIOMS[g]:
                if label in REVEAL and OWNER[0] is not None and OWNER[0] not in REVEAL[label]:
                    continue        # opaque here: fewer assumptions, never more
                key = (g, label, SP.BOUND[0])
                if key not in _gax_cache:
                    st = State()
                    _gax_cache[key] = SP.SpecEval(st, {}, modname).bool(text)
                out.append((label, _gax_cache[key]))
    return out


def ghost_axiom_instances(fs):
    """refutation mode: a ghost axiom  forall xs. (g(xs) and ...) => ...  is instantiated on the ground applications
    of g present in the query (quantifier-free weakening); axioms of another shape are kept as they are"""
    from .state import GHOST_AXIOMS
    names = used_names(fs)
    out = []
    for label, f in ghost_axioms(names):
        g = [k for k, v in GHOST_AXIOMS.items() if any(l == label for l, _, _ in v)][0]
        if z3.is_quantifier(f) and f.is_forall():
            apps = ground_apps(fs, g)
            nv = f.num_vars()
            done = False
            for app in apps:
                if app.num_args() == nv and all(app.arg(i).sort() == f.var_sort(i) for i in range(nv)):
                    # de Bruijn: var 0 is the innermost (last) bound variable
                    subst = [app.arg(nv - 1 - i) for i in range(nv)]
                    out.append((label + '@inst', z3.substitute_vars(f.body(), *subst)))
                    done = True
            if done or apps == []:
                if not apps:
                    continue
                continue
        out.append((label, f))
    return out


def to_smt2(assumptions, goal):
    """negated goal + assumptions + the A-STR axioms of every function symbol mentioned"""
    fs = list(assumptions) + [z3.Not(goal)]
    names = used_names(fs)
    axioms = []
    changed = True
    added = set()
    while changed:
        changed = False
        for n in sorted(names):
            if n in BI.AXIOMS and n not in added:
                added.add(n)
                axioms.extend(BI.AXIOMS[n])
                names |= used_names(BI.AXIOMS[n])
                changed = True
    gax = ghost_axioms(names)
    s = z3.Solver()
    s.add(*axioms)
    s.add(*[f for _, f in gax])
    s.add(*fs)
    return _portable(s.to_smt2()), sorted(added) + [l for l, _ in gax]


def _z3_api(smt2, timeout_ms, want_model):
    ctx = z3.Context()
    s = z3.Solver(ctx=ctx)
    s.set('timeout', timeout_ms)
    s.from_string(smt2)
    t0 = time.time()
    r = s.check()
    dt = time.time() - t0
    model = None
    if r == z3.sat and want_model:
        try:
            m = s.model()
            model = {}
            for d in m.decls():
                try:
                    model[d.name()] = str(m[d])[:4000]
                except Exception:
                    pass
        except Exception:
            model = None
    reason = ''
    if r == z3.unknown:
        reason = s.reason_unknown()
    return str(r), dt, model, reason


def _cli(cmd, smt2, timeout_s):
    with tempfile.NamedTemporaryFile('w', suffix='.smt2', delete=False, dir=OUT) as f:
        f.write(smt2)
        path = f.name
    t0 = time.time()
    try:
        p = subprocess.run(cmd + [path], capture_output=True, text=True, timeout=timeout_s + 5)
        out = (p.stdout or '').strip().splitlines()
        r = out[0].strip() if out else 'unknown'
        if r not in ('sat', 'unsat', 'unknown'):
            r = 'unknown'
        err = (p.stderr or '')[:300] + ' '.join(out[:2])[:300]
    except subprocess.TimeoutExpired:
        r, err = 'unknown', 'timeout'
    finally:
        try:
            os.unlink(path)
        except OSError:
            pass
    return r, time.time() - t0, err


def solve_one(job):
    """job = (name, smt2, tier, cross) -> dict"""
    name, smt2, tier, cross = job
    zt, ct, ot = BUDGETS[tier]
    res = {'name': name, 'verdict': 'unknown', 'backend': None, 'seconds': 0.0, 'model': None, 'tried': []}
    # the z3 5.x binary with a hard process time limit (the API's soft timeout is not honoured inside some sequence
    # solver loops: a query then hangs the check)
    model = None
    r = 'unknown'
    if zt > 0:
        r, dt, err = _cli([Z3NEW, '-T:%d' % max(1, zt // 1000)], smt2, max(1, zt // 1000))
        res['tried'].append(('z3-%s' % z3.get_version_string(), r, round(dt, 3)))
        res['seconds'] += dt
    if r in ('unsat', 'sat'):
        res.update(verdict=r, backend='z3-%s' % z3.get_version_string(), model=model)
    if (r == 'unknown' or cross) and ct > 0:
        r2, dt2, err = _cli(['/usr/bin/cvc5', '--strings-exp', '--tlimit=%d' % (ct * 1000)], smt2, ct)
        res['tried'].append(('cvc5-1.0.3', r2, round(dt2, 3)))
        res['seconds'] += dt2
        if r2 == 'unknown' and r == 'unknown':
            ct = max(8, ct // 2)
            r2b, dt2b, err = _cli(['/usr/bin/cvc5', '--strings-exp', '--enum-inst', '--tlimit=%d' % (ct * 1000)], smt2, ct)
            res['tried'].append(('cvc5-1.0.3 --enum-inst', r2b, round(dt2b, 3)))
            res['seconds'] += dt2b
            r2 = r2b
        if r == 'unknown' and r2 == 'unsat':
            res.update(verdict='unsat', backend='cvc5-1.0.3')
        elif r != 'unknown' and r2 != 'unknown' and r2 != r:
            res['disagreement'] = (r, r2)
    return res


def discharge(obligs, tier='quick', cross=False, procs=None, threads=False):
    """obligs: list of Obligation -> list of result dicts (same order)"""
    os.makedirs(OUT, exist_ok=True)
    jobs, results = [], [None] * len(obligs)
    for i, o in enumerate(obligs):
        if o.info.get('trivial'):
            results[i] = {'name': o.name, 'verdict': 'unsat', 'backend': 'syntactic', 'seconds': 0.0, 'model': None,
                          'tried': []}
            continue
        OWNER[0] = o.name.split('/', 1)[0].split('<', 1)[0]
        if getattr(o, 'bounded', None) is not None:
            smt2, axioms = to_smt2_bounded(o.assumptions, o.goal)
        else:
            smt2, axioms = to_smt2(o.assumptions, o.goal)
        o.smt2 = smt2
        o.axioms = axioms
        jobs.append((i, (o.name, smt2, tier, cross)))
    if jobs:
        procs = procs or min(16, max(1, len(jobs)))
        if procs == 1 or len(jobs) == 1:
            outs = [solve_one(j) for _, j in jobs]
        elif threads:
            # inside a (daemonic) worker process: the back ends are external processes, so threads give the parallelism
            from concurrent.futures import ThreadPoolExecutor
            with ThreadPoolExecutor(max_workers=procs) as tp:
                outs = list(tp.map(solve_one, [j for _, j in jobs]))
        else:
            ctx = mp.get_context('fork')
            with ctx.Pool(procs) as pool:
                outs = pool.map(solve_one, [j for _, j in jobs], chunksize=1)
        for (i, _), r in zip(jobs, outs):
            results[i] = r
    return results
