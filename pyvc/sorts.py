"""SMT sorts of the PyVC encoding (DESIGN 2.4): one universal value datatype, heap arrays,
list/dict contents, truthiness.  Everything here is pure z3py term construction."""
import z3

z3.set_param('smt.random_seed', 0)

_V = z3.Datatype('Val')
_V.declare('VNone')
_V.declare('VBool', ('vb', z3.BoolSort()))
_V.declare('VInt', ('vi', z3.IntSort()))
_V.declare('VStr', ('vs', z3.StringSort()))
_V.declare('VBytes', ('vy', z3.StringSort()))
_V.declare('VRef', ('va', z3.IntSort()))
_V.declare('VCls', ('vc', z3.IntSort()))
Val = _V.create()

VNone = Val.VNone
VBool, VInt, VStr, VBytes, VRef, VCls = Val.VBool, Val.VInt, Val.VStr, Val.VBytes, Val.VRef, Val.VCls
vb, vi, vs, vy, va, vc = Val.vb, Val.vi, Val.vs, Val.vy, Val.va, Val.vc
is_none, is_bool, is_int, is_str, is_bytes, is_ref, is_cls = (
    Val.is_VNone, Val.is_VBool, Val.is_VInt, Val.is_VStr, Val.is_VBytes, Val.is_VRef, Val.is_VCls)

SeqVal = z3.SeqSort(Val)
IntS, BoolS, StrS = z3.IntSort(), z3.BoolSort(), z3.StringSort()
FieldArr = z3.ArraySort(IntS, Val)          # one per field name: address -> value
ListArr = z3.ArraySort(IntS, SeqVal)        # address -> contents of list / tuple
KeySet = z3.ArraySort(Val, BoolS)
KeyMap = z3.ArraySort(Val, Val)
DKArr = z3.ArraySort(IntS, KeySet)          # address -> set of present keys
DVArr = z3.ArraySort(IntS, KeyMap)          # address -> key -> value
IntArr = z3.ArraySort(IntS, IntS)

# allocation kinds
K_INST, K_LIST, K_TUPLE, K_DICT, K_SET, K_EXC = 0, 1, 2, 3, 4, 5

TRUE, FALSE = z3.BoolVal(True), z3.BoolVal(False)
PyTrue, PyFalse = VBool(TRUE), VBool(FALSE)

_fresh_counter = [0]


def fresh(prefix, sort):
    _fresh_counter[0] += 1
    return z3.Const('%s!%d' % (prefix, _fresh_counter[0]), sort)


def reset_fresh():
    _fresh_counter[0] = 0


def lit(pyval):
    """Python constant -> Val term (None/bool/int/str/bytes only)."""
    if pyval is None:
        return VNone
    if isinstance(pyval, bool):
        return VBool(z3.BoolVal(pyval))
    if isinstance(pyval, int):
        return VInt(z3.IntVal(pyval))
    if isinstance(pyval, str):
        return VStr(z3.StringVal(pyval))
    if isinstance(pyval, bytes):
        return VBytes(z3.StringVal(pyval.decode('latin-1')))
    raise TypeError('no literal for %r' % (pyval,))


def And(*xs):
    xs = [x for x in xs if not z3.is_true(x)]
    if not xs:
        return TRUE
    if len(xs) == 1:
        return xs[0]
    return z3.And(*xs)


def Or(*xs):
    xs = [x for x in xs if not z3.is_false(x)]
    if not xs:
        return FALSE
    if len(xs) == 1:
        return xs[0]
    return z3.Or(*xs)


def Not(x):
    if z3.is_true(x):
        return FALSE
    if z3.is_false(x):
        return TRUE
    return z3.Not(x)


def Implies(a, b):
    if z3.is_true(a):
        return b
    return z3.Implies(a, b)
