"""Static (refinement-free) types carried next to symbolic values.  They resolve method calls,
decide which AttributeError forks are possible and which shape assumptions (E-PARSE / declared
object invariants) may be assumed when a field is read."""


class T(object):
    def __repr__(self):
        return self.__class__.__name__[1:]

    def __eq__(self, o):
        return type(self) is type(o) and self.__dict__ == o.__dict__

    def __hash__(self):
        return hash(repr(self))


class TAny(T):
    pass


class TNone(T):
    pass


class TBool(T):
    pass


class TInt(T):
    pass


class TStr(T):
    pass


class TBytes(T):
    pass


class TCls(T):
    """a class object (exception classes, schema classes used as values)"""
    def __init__(self, name=None):
        self.name = name

    def __repr__(self):
        return 'Cls(%s)' % self.name


class TInst(T):
    def __init__(self, cls):
        self.cls = cls          # qualified name "pkg.mod:Class"

    def __repr__(self):
        return 'Inst(%s)' % self.cls


class TOpt(T):
    def __init__(self, t):
        self.t = t

    def __repr__(self):
        return 'Opt(%r)' % self.t


class TList(T):
    def __init__(self, t):
        self.t = t

    def __repr__(self):
        return 'List(%r)' % self.t


class TTuple(T):
    def __init__(self, ts):
        self.ts = tuple(ts)

    def __repr__(self):
        return 'Tuple%r' % (self.ts,)


class TDict(T):
    def __init__(self, k, v):
        self.k, self.v = k, v

    def __repr__(self):
        return 'Dict(%r,%r)' % (self.k, self.v)


class TSet(T):
    def __init__(self, t):
        self.t = t


class TUnion(T):
    def __init__(self, ts):
        self.ts = tuple(ts)

    def __repr__(self):
        return 'Union%r' % (self.ts,)


class TFunc(T):
    """a function value: module function, or method bound to `recv` (a symbolic value)"""
    def __init__(self, qual, recv=None, recv_field=None):
        self.qual, self.recv, self.recv_field = qual, recv, recv_field   # recv_field: bound to <holder>.<recv_field>

    def __repr__(self):
        return 'Func(%s)' % self.qual

    def __eq__(self, o):
        return isinstance(o, TFunc) and self.qual == o.qual

    def __hash__(self):
        return hash(self.qual)


class TModule(T):
    def __init__(self, name):
        self.name = name

    def __repr__(self):
        return 'Module(%s)' % self.name


ANY, NONE, BOOL, INT, STR, BYTES = TAny(), TNone(), TBool(), TInt(), TStr(), TBytes()


def Opt(t):
    if isinstance(t, (TOpt, TAny, TNone)):
        return t
    return TOpt(t)


def Inst(c):
    return TInst(c)


def List(t):
    return TList(t)


def Dict(k, v):
    return TDict(k, v)


def Tuple(*ts):
    return TTuple(ts)


def Union(*ts):
    return TUnion(ts)


def strip_opt(t):
    return t.t if isinstance(t, TOpt) else t


def join(a, b):
    """least upper bound, coarse"""
    if a is None:
        return b
    if b is None:
        return a
    if a == b:
        return a
    if isinstance(a, TNone):
        return Opt(b)
    if isinstance(b, TNone):
        return Opt(a)
    if isinstance(a, TOpt) and strip_opt(b) == a.t:
        return a
    if isinstance(b, TOpt) and strip_opt(a) == b.t:
        return b
    if isinstance(a, TCls) and isinstance(b, TCls):
        return TCls(None)
    return ANY


def parse_type(s):
    """types in sidecar files are written as Python expressions over these constructors"""
    if isinstance(s, T):
        return s
    env = dict(Any=ANY, NoneT=NONE, Bool=BOOL, Int=INT, Str=STR, Bytes=BYTES, Opt=Opt, Inst=Inst,
               List=List, Dict=Dict, Tuple=Tuple, Union=Union, Cls=TCls, Func=TFunc, Set=TSet)
    return eval(s, {'__builtins__': {}}, env)
