"""PyVC: contract-based deductive verification of the real pysaml2 function bodies (see DESIGN.md 2)."""
