"""bin/check <Cxx> --tier quick|thorough : decides one property on /repo's current working tree.
Exit 0 held / 1 violation / 2 undecided / 3 checker fault (DESIGN 2.9)."""
import importlib
import json
import os
import sys
import time
import traceback
import warnings

warnings.filterwarnings('ignore')       # third-party deprecation chatter of the repository's own dependencies
import logging
logging.disable(logging.CRITICAL)       # the library logs every rejected input; verdicts are reported by this driver only

HERE = os.path.dirname(os.path.dirname(os.path.abspath(__file__)))
sys.path.insert(0, HERE)

from pyvc import engine, solve, front, spec as SP      # noqa
import z3                                               # noqa


import re as _re


def site_free(name):
    """obligation name without site ordinals: `F/post[label]@return#3` -> `F/post[label]`, `F/pre[l]@call#11(G)` -> `F/pre[l](G)`.
    Ledger and known findings are compared in this form, so that adding an unrelated statement, call or return to a
    function neither hides nor re-reports anything."""
    return _re.sub(r'@(?:return|raise|call|loop)#\d+|@end\b|@raise\b|@return\b', '', name)


def load_known():
    path = os.path.join(HERE, 'known_findings.txt')
    opens, fixed = [], []
    if os.path.exists(path):
        for line in open(path):
            line = line.strip()
            if not line or line.startswith('#'):
                continue
            kind, rest = line.split(':', 1)
            rest = rest.strip()
            if kind == 'open':
                d = {}
                head, _, what = rest.partition(' what=')
                for tok in head.split():
                    k, _, v = tok.partition('=')
                    d[k] = v
                d['what'] = what
                opens.append(d)
            elif kind == 'fixed':
                fixed.append(rest)
    return opens, fixed


def cover_check(fr):
    """vacuity: the precondition of a verified function must be satisfiable"""
    s = z3.Solver()
    s.set('timeout', 5000)
    s.add(*getattr(fr, 'pre', []))
    return str(s.check())


def main(argv):
    import argparse
    ap = argparse.ArgumentParser()
    ap.add_argument('prop')
    ap.add_argument('--tier', default=os.environ.get('VERIF_TIER') or 'quick')
    ap.add_argument('--replay')
    ap.add_argument('--update-ledger', action='store_true')
    ap.add_argument('--verbose', '-v', action='store_true')
    args = ap.parse_args(argv)
    if args.tier not in ('quick', 'thorough'):
        args.tier = 'quick'
    seed = int(os.environ.get('VERIF_SEED') or 0)
    pid = args.prop
    t0 = time.time()
    try:
        rc = replay_file(pid, args.replay, args.tier, seed) if args.replay else run(pid, args.tier, seed, args, t0)
    except SystemExit:
        raise
    except Exception:
        traceback.print_exc()
        print('CHECKER-FAULT property=%s' % pid)
        rc = 3
    sys.exit(rc)


def replay_file(pid, path, tier, seed):
    """bin/check Cxx --replay <file>: re-derive the violation recorded in a replay file on the CURRENT tree.
    Exit 1 when it reproduces (the obligation is refuted again and the native run again produces the refuted outcome, or the
    table / bounded case fails again), 0 when it no longer does, 2 when the obligation is open but no replayable input is found."""
    import contracts        # noqa
    from pyvc import tables, replay as RP
    with open(path) as f:
        d = json.load(f)
    name = d.get('obligation')
    P = importlib.import_module('props.' + pid).PROP
    print('replaying %s (property %s)' % (name, pid))
    if d.get('table'):
        for tname in P.get('tables', []):
            for t in getattr(tables, tname)():
                if t['name'] == name:
                    print('table entry %s: %s %s' % (name, 'ok' if t['ok'] else 'FAILS', t.get('witness') or ''))
                    return 0 if t['ok'] else 1
        print('table entry no longer generated')
        return 2
    if d.get('bounded'):
        for bname in P.get('bounded', []):
            b = importlib.import_module('bounded.' + bname).run(tier, seed)
            for v in b.get('violations', []):
                if v['name'] == name:
                    print('bounded case fails again: %s' % json.dumps(v, default=str)[:2000])
                    return 1
        print('bounded case passes on the current tree')
        return 0
    short = name.split('/', 1)[0]
    quals = list(P['functions'])
    if P.get('function_generator'):
        quals += getattr(importlib.import_module(P['function_generator'][0]), P['function_generator'][1])(tier)
    cands = [q for q in quals if q.split(':', 1)[1] == short]
    if not cands:
        print('no function under contract is named %s' % short)
        return 2
    eng = engine.Engine()
    fr = eng.verify_function(cands[0])
    if fr.error:
        print('UNDECIDED %s' % fr.error)
        return 2
    mine = [o for o in fr.obligations if o.name == name]
    res = solve.discharge(mine, tier)
    if mine and all(r['verdict'] == 'unsat' for r in res):
        print('obligation %s is discharged on the current tree (%d instances)' % (name, len(mine)))
        return 0
    for K in ([d['bound_K']] if d.get('bound_K') else []) + [2, 3]:
        frb = eng.verify_function(cands[0], bound=K)
        if frb.error:
            continue
        for o in frb.obligations:
            if o.info.get('trivial') or not (o.name == name or (('/inv-' in name or '/frame' in name or '/pre[' in name)
                                                                 and o.kind in ('post', 'raises'))):
                continue
            rr = RP.refute_and_replay(o, frb, K, pid)
            if rr and rr.get('replayed'):
                print(json.dumps({k: rr.get(k) for k in ('input', 'predicted_outcome', 'native_outcome', 'what', 'clause')},
                                 indent=1, default=str))
                return 1
    print('obligation %s is not discharged, and no replayable failing input was found' % name)
    return 2


def run(pid, tier, seed, args, t0):
    import contracts        # noqa  registers everything
    from pyvc import tables, replay as RP
    P = importlib.import_module('props.' + pid).PROP
    opens, fixed = load_known()
    opens = [o for o in opens if o.get('property') == pid]
    if SP.DUPLICATES:
        print('CHECKER-FAULT two contracts registered for %s' % ', '.join(SP.DUPLICATES))
        return 3
    eng = engine.Engine()
    if os.environ.get('PYVC_MUTANT'):       # self-test hook: "qual::old text=>new text"
        mq, _, edit = os.environ['PYVC_MUTANT'].partition('::')
        engine.MUTANTS[mq] = tuple(edit.split('=>'))
    quals = list(P['functions'])
    if P.get('function_generator'):
        quals += getattr(importlib.import_module(P['function_generator'][0]), P['function_generator'][1])(tier)
    # one worker per function: VC generation and solving of different functions run in parallel
    import multiprocessing as mp
    jobs = [(q, pid, tier, max(1, 16 // max(1, len(quals)))) for q in quals]
    nproc = min(16, max(1, len(jobs)))
    if nproc > 1:
        with mp.get_context('fork').Pool(nproc) as pool:
            packs = pool.map(_verify_worker, jobs, chunksize=1)
    else:
        packs = [_verify_worker(j) for j in jobs]
    frs, obls, results = [], [], []
    undecided, lines = [], []
    other_props = 0
    for pk in packs:
        fr = FnSummary(pk)
        frs.append(fr)
        if fr.error:
            undecided.append('%s: %s' % (fr.qual, fr.error))
        for w in pk.get('warnings', []):
            undecided.append('%s: %s' % (fr.qual, w))
        other_props += pk['foreign']
        for od in pk['obligations']:
            o = ObSummary(od, fr)
            obls.append(o)
            results.append(od['result'])
    by_name = {}
    for o, r in zip(obls, results):
        by_name.setdefault(o.name, []).append((o, r))
    name_verdict = {}
    for name, lst in by_name.items():
        vs = [r['verdict'] for _, r in lst]
        name_verdict[name] = 'unsat' if all(v == 'unsat' for v in vs) else ('sat' if 'sat' in vs else 'unknown')
    faults = [r for r in results if r.get('disagreement')]
    # ---- contract-level lemmas: closed formulas over ghost functions, discharged like any obligation (with the A-* / E-* axioms)
    from pyvc.execcore import Obligation
    from pyvc.state import State
    lemma_obls = []
    for lname, ltext in P.get('lemmas', []):
        g = SP.SpecEval(State(), {}, 'saml2_tophat.sigver').bool(ltext)
        lemma_obls.append(Obligation('lemma[%s]' % lname, [], g, 'lemma', {'text': ltext}))
    if lemma_obls:
        lres = solve.discharge(lemma_obls, tier, cross=(tier == 'thorough'), procs=1)
        for o, r in zip(lemma_obls, lres):
            o.fr = None
            obls.append(o)
            results.append(r)
            by_name.setdefault(o.name, []).append((o, r))
            name_verdict[o.name] = r['verdict']
    open_names = sorted(n for n, v in name_verdict.items() if v != 'unsat')
    # (run before the counter-model search: a native violation already decides the check)
    # ---- finite tables / call-site inventories (exhaustive ground obligations)
    table_results = []
    for tname in P.get('tables', []):
        table_results.extend(getattr(tables, tname)())
    # ---- bounded stand-ins (labelled, never counted as proved)
    bounded_results = []
    for bname in P.get('bounded', []):
        mod = importlib.import_module('bounded.' + bname)
        bounded_results.append(mod.run(tier, seed))
    # ---- refutation of what is not discharged: bounded counter-model search + native replay
    refuted = {}
    native_violation = any(not t['ok'] for t in table_results) or any(
        site_free(v['name']) not in set(site_free(k.get('obligation') or '') for k in opens) for b in bounded_results for v in b.get('violations', []))
    if open_names and native_violation:
        undecided.append('counter-model search for %d open obligation(s) skipped: a table / bounded case already fails' % len(open_names))
    if open_names and not native_violation:
        by_fn = {}
        for n in open_names:
            if by_name[n][0][0].fr is not None:
                by_fn.setdefault(by_name[n][0][0].fr.qual, set()).add(n)
        known_names = set(k.get('obligation') for k in opens)
        known_free = set(site_free(n or '') for n in known_names)
        budget = 240 if tier == 'quick' else 1200      # wall seconds of counter-model search per function
        t_all = time.time()
        budget_all = 420 if tier == 'quick' else 2400  # ... and per check
        for q, names in sorted(by_fn.items()):
            if any(site_free(n) not in known_free for n in refuted):
                break       # a violation that is not a known finding is already established: it decides the check
            t_fn = time.time()
            found_new = False
            for K, unmerged in ((2, False), (2, True), (3, False)):
                todo = [n for n in names if n not in refuted]
                if not todo or found_new or time.time() - t_fn > budget or time.time() - t_all > budget_all:
                    break
                # path by path (no state merging): one conjunctive query per path is far easier to satisfy than the merged
                # formula; fall back to the merged form when the paths are too many
                from pyvc import state as _state
                if unmerged:
                    _state.NO_MERGE[:] = [True, time.time() + (60 if tier == 'quick' else 300)]       # (flag, deadline of the unmerged exploration)
                    try:
                        frb = eng.verify_function(q, bound=K)
                    finally:
                        _state.NO_MERGE[:] = [False]
                    if frb.error or len(frb.obligations) > 6000:
                        continue
                else:
                    frb = eng.verify_function(q, bound=K)
                if frb.error:
                    break
                # refutation mode unrolls loops, so loop obligations do not exist there: an open inv-* / hint /
                # frame obligation is refuted through any exit obligation of the same function that has a
                # replayable counter-model
                loopish = [n for n in todo if ('/inv-' in n or '/frame' in n or '/pre[' in n or '/fieldtype' in n)]
                cands = []
                for o in frb.obligations:
                    if o.info.get('trivial'):
                        continue
                    direct = o.name in todo
                    indirect = bool(loopish) and o.kind in ('post', 'raises')
                    if direct or indirect:
                        cands.append(o)
                # screen all path instances quickly and in parallel; only satisfiable ones go on to model extraction + replay
                if len(cands) > 400:
                    cands = [o for o in cands if o.name in todo][:400] or cands[:400]
                screen = solve.discharge(cands, 'screen', procs=16, threads=True) if cands else []
                order = sorted(range(len(cands)), key=lambda i: ({'sat': 0, 'unknown': 1, 'unsat': 2}[screen[i]['verdict']],
                                                                 site_free(cands[i].name) not in known_free, cands[i].name not in todo,
                                                                 cands[i].kind not in ('post', 'raises')))
                tried = {}
                for i in order:
                    o = cands[i]
                    if screen[i]['verdict'] == 'unsat' or found_new or time.time() - t_fn > budget:
                        break       # one replayed violation per function decides the check; the others stay listed as open
                    if tried.get(o.name, 0) >= 3:
                        continue    # at most three path instances per obligation name
                    direct = o.name in todo and (o.name not in refuted or not refuted[o.name].get('replayed'))
                    indirect = bool(loopish) and o.kind in ('post', 'raises') and not all(n in refuted for n in loopish)
                    if not (direct or indirect):
                        continue
                    tried[o.name] = tried.get(o.name, 0) + 1
                    rr = RP.refute_and_replay(o, frb, K, pid)
                    if rr is None:
                        continue
                    if direct:
                        refuted[o.name] = rr
                        if rr.get('replayed') and site_free(o.name) not in known_free:
                            found_new = True
                    elif rr.get('replayed'):
                        for n in loopish:
                            refuted.setdefault(n, dict(rr, via_exit_obligation=o.name))
                        found_new = True
    # ---- vacuity
    covers = {fr.qual: fr.pre_sat for fr in frs if not fr.error}
    for q, v in covers.items():
        if v == 'unsat':
            undecided.append('%s: precondition is unsatisfiable (vacuous contract)' % q)
    for fr in frs:
        if not fr.error and not fr.obligations and not fr.foreign:
            undecided.append('%s: zero obligations generated' % fr.qual)
    # ---- ledger
    ledger_path = os.path.join(HERE, 'ledger', pid + '.json')
    # the ledger pins the property-relevant obligations (posts, raises, tables); frame / invariant / callee-precondition
    # obligations may legitimately come and go with harmless edits
    # (raises[...] names depend on how exceptional outcomes were merged and change with harmless restructurings: not pinned)
    all_names = sorted(n for n in name_verdict if '/post[' in n or '/expost[' in n) + \
        sorted(t['name'] for t in table_results)
    all_names = sorted(set(site_free(n) for n in all_names))
    if args.update_ledger:
        os.makedirs(os.path.dirname(ledger_path), exist_ok=True)
        with open(ledger_path, 'w') as f:
            json.dump({'obligations': all_names}, f, indent=1)
    missing = []
    if os.path.exists(ledger_path):
        with open(ledger_path) as f:
            led = json.load(f)
        missing = sorted(set(site_free(n) for n in led['obligations'] if '/raises[' not in n) - set(all_names))
        for m in missing:
            undecided.append('obligation %s of the ledger was not generated (function restructured or clause unreachable)' % m)
    # ---- verdicts
    violations, known_lines = [], []
    os.makedirs(os.path.join(HERE, 'out', 'replay', pid), exist_ok=True)

    def report(name, detail, suffix=''):
        for k in opens:
            if site_free(k.get('obligation') or '') == site_free(name):
                ok, msg = RP.run_witness(k.get('witness'))
                if ok:
                    known_lines.append('KNOWN-FINDING: property=%s %s' % (pid, k['what']))
                    return
                detail = dict(detail, known_finding_witness_no_longer_reproduces=msg)
        path = os.path.join(HERE, 'out', 'replay', pid, _safe(name) + suffix + '.json')
        with open(path, 'w') as f:
            json.dump(dict(detail, obligation=name, property=pid), f, indent=1, default=str)
        tail = '' if detail.get('replayed') else ' no-failing-input-found'
        violations.append('VIOLATION property=%s replay=%s%s' % (pid, path, tail))

    for name in open_names:
        if name in refuted:
            report(name, refuted[name])
        elif name_verdict[name] == 'sat':
            o, r = [x for x in by_name[name] if x[1]['verdict'] == 'sat'][0]
            report(name, {'replayed': False, 'solver': r['backend'], 'model': r.get('model'),
                          'trace': o.info.get('trace'), 'note': 'counter-model from the unbounded query; '
                          'no bounded counter-model could be rebuilt as a native input'})
        else:
            undecided.append('obligation %s: unknown in every back end (%s)' % (
                name, by_name[name][0][1]['tried']))
    for t in table_results:
        if not t['ok']:
            report(t['name'], {'replayed': True, 'table': True, 'witness': t.get('witness')})
    for b in bounded_results:
        seen_names = {}
        for v in b.get('violations', []):
            k = seen_names.get(v['name'], 0)
            seen_names[v['name']] = k + 1
            if k >= 3:
                continue            # the first three cases of one bounded clause are reported, the rest is in the evidence
            report(v['name'], dict(v, replayed=True, bounded=True), suffix=('-%d' % k if k else ''))
    # ---- (thorough) must-kill mutants: property-breaking edits applied in memory; the contracts must notice each one
    mutant_report = None
    if tier == 'thorough' and not os.environ.get('PYVC_MUTANT'):
        mutant_report = run_mutants(pid, quals)
    # ---- evidence
    n_obl = len(name_verdict) + len(table_results)
    n_dis = sum(1 for v in name_verdict.values() if v == 'unsat') + sum(1 for t in table_results if t['ok'])
    level = P.get('level', 'proof')
    if n_dis != n_obl and level == 'proof':
        level = 'other'
    backends = {}
    for r in results:
        backends[r['backend'] or 'none'] = backends.get(r['backend'] or 'none', 0) + 1
    used = set()
    for fr in frs:
        used |= set(fr.used_contracts)
    trusted = sorted(q for q in used if q in SP.CONTRACTS and SP.CONTRACTS[q].trusted)
    assumed_verified_elsewhere = sorted(q for q in used if q in SP.CONTRACTS and not SP.CONTRACTS[q].trusted and q not in quals)
    assumptions = set(P.get('assumptions', []))
    for q in used | set(quals):
        if q in SP.CONTRACTS:
            assumptions |= set(SP.CONTRACTS[q].assumptions)
    samples = []
    for o, r in list(zip(obls, results))[:400]:
        if not o.info.get('trivial') and len(samples) < 4 and o.kind in ('post', 'raises', 'inv-keep'):
            samples.append({'obligation': o.name, 'kind': o.kind, 'path': o.info.get('trace'), 'verdict': r['verdict'],
                            'backend': r['backend'], 'seconds': round(r['seconds'], 3),
                            'smt2_tail': o.smt2})
    for t in table_results[:2]:
        samples.append({'obligation': t['name'], 'kind': 'table', 'cases': t.get('cases'), 'verdict': 'ok' if t['ok'] else 'fails'})
    ev = {
        'property_id': pid, 'tier': tier, 'seed': seed, 'level': level,
        'coverage': {
            'obligations': n_obl, 'discharged': n_dis,
            'checker_cmd': 'bin/check %s --tier %s' % (pid, tier),
            'trusted_base': ['z3 %s' % z3.get_version_string(), 'cvc5 1.0.3', 'PyVC (this directory)',
                             'CPython ast'] + ['contract(trusted): ' + q for q in trusted],
            'functions_under_contract': [fr.meta for fr in frs if fr.meta is not None],
            'paths_explored': sum(fr.paths for fr in frs),
            'path_instances': len(obls),
            'by_kind': _count(o.kind for o in obls),
            'by_backend': backends,
            'solver_seconds': round(sum(r['seconds'] for r in results), 2),
            'slowest': sorted(((round(r['seconds'], 2), o.name) for o, r in zip(obls, results)), reverse=True)[:5],
            'undischarged': sorted(n for n, v in name_verdict.items() if v != 'unsat'),
            'callee_contracts_assumed_in_this_check': assumed_verified_elsewhere,
            'of_which_verified_under_another_property': sorted(q for q in assumed_verified_elsewhere if q in _verified_anywhere()),
            'inlined_callees': sorted(set(sum((fr.inlined for fr in frs), []))),
            'tables': [{'name': t['name'], 'cases': t.get('cases'), 'ok': t['ok'], 'exhaustive': True} for t in table_results],
            'bounded': [{k: v for k, v in b.items() if k != 'violations'} for b in bounded_results],
            'vacuity': {'preconditions_satisfiable': covers, 'exits_reached': {fr.qual: fr.exits for fr in frs}},
            'ledger_missing': missing,
            'known_findings_printed': known_lines,
            'samples': samples,
            'explanation': P.get('explanation') or ('%d of %d named obligations generated from the current source are discharged; '
                            'the undischarged ones are %s' % (n_dis, n_obl, 'the known findings printed by this run'
                            if known_lines and not violations else 'reported as violations / undecided')),
            'not_decided': P.get('not_decided', []),
            'must_kill_mutants': mutant_report,
        },
        'assumptions': sorted(assumptions),
        'wall_s': round(time.time() - t0, 2),
        'violations': len(violations),
    }
    if level != 'proof':
        ev['coverage']['evaluations'] = max(1, len(obls) + sum(t.get('cases') or 0 for t in table_results))
        ev['coverage']['distinct_nontrivial'] = max(2, n_obl)
        ev['coverage']['rule'] = 'one case per named proof obligation / table entry generated from the current source'
    # a self-test run (in-memory mutant) must not overwrite the evidence of the real tree
    evdir = os.path.join(HERE, 'out', 'mutant-evidence') if (os.environ.get('PYVC_MUTANT') or os.environ.get('PYVC_REPO')) else os.path.join(HERE, 'evidence')
    os.makedirs(evdir, exist_ok=True)
    with open(os.path.join(evdir, pid + '.json'), 'w') as f:
        json.dump(ev, f, indent=1, default=str)
    # ---- report
    print('property %s tier=%s: %d obligations, %d discharged, %d functions, %.1fs' % (
        pid, tier, n_obl, n_dis, len(frs), time.time() - t0))
    for l in known_lines:
        print(l)
    if faults:
        for r in faults:
            print('BACKEND-DISAGREEMENT %s %s' % (r['name'], r['disagreement']))
        return 3
    if violations:
        for v in violations[:12]:
            print(v)
        if len(violations) > 12:
            print('(%d further violations of property %s are listed in out/replay/%s/ and in the evidence)' % (len(violations) - 12, pid, pid))
        return 1
    if undecided:
        for u in undecided:
            print('UNDECIDED property=%s %s' % (pid, u))
        return 2
    return 0


def _mutant_worker(job):
    m, tier = job
    eng = engine.Engine()
    try:
        fr = eng.verify_function(m['qual'], mutate=(m['old'], m['new']))
    except Exception as e:        # noqa
        return dict(m, status='error', detail=repr(e)[:200])
    if fr.error:
        # an anchor that is gone means the function was edited: the mutant no longer applies (not a survivor)
        return dict(m, status='not-applicable' if 'mutant anchor' in fr.error else 'killed', detail=fr.error[:200])
    res = solve.discharge(fr.obligations, 'quick', procs=4, threads=True)
    bad = sorted(set(o.name for o, r in zip(fr.obligations, res) if r['verdict'] != 'unsat'))
    return dict(m, status='killed' if bad else 'SURVIVED', detail=bad[:4])


def run_mutants(pid, quals):
    """selftest/mutants.json: each entry is an edit that breaks the property; after the edit at least one obligation of the
    function must fail to discharge.  Evidence only: a survivor is printed and recorded, the verdict of the check on the
    real tree is not changed by it."""
    path = os.path.join(HERE, 'selftest', 'mutants.json')
    if not os.path.exists(path):
        return None
    with open(path) as f:
        muts = [m for m in json.load(f) if m.get('prop') == pid and not m.get('skip') and m['qual'] in quals]
    if not muts:
        return {'mutants': 0}
    import multiprocessing as mp
    with mp.get_context('fork').Pool(min(4, len(muts))) as pool:
        out = pool.map(_mutant_worker, [(m, 'quick') for m in muts], chunksize=1)
    for r in out:
        if r['status'] == 'SURVIVED':
            print('MUTANT-SURVIVED property=%s %s: %s' % (pid, r['qual'].split(':')[1], r.get('name')))
    return {'mutants': len(out), 'killed': sum(r['status'] == 'killed' for r in out),
            'survived': [r for r in out if r['status'] == 'SURVIVED'], 'not_applicable': sum(r['status'] == 'not-applicable' for r in out),
            'list': [{'function': r['qual'], 'edit': r.get('name'), 'status': r['status'], 'failing': r.get('detail')} for r in out]}


class FnSummary(object):
    def __init__(self, pk):
        self.__dict__.update(pk)
        self.fi = self

    def describe(self):
        return self.meta


class ObSummary(object):
    def __init__(self, od, fr):
        self.name, self.kind, self.info, self.smt2, self.fr = od['name'], od['kind'], od['info'], od['smt2_tail'], fr


def _verify_worker(job):
    """runs in a forked worker: generate the obligations of one function and discharge them"""
    q, pid, tier, nthreads = job
    eng = engine.Engine()
    fr = eng.verify_function(q)
    c = SP.CONTRACTS.get(q)
    foreign = set()
    if c is not None:
        mine = set(c.clauses_from.get(pid, []))
        for q2, labs in c.clauses_from.items():
            if q2 != pid:
                foreign |= set(labs) - mine
    keep, nforeign = [], 0
    for o in fr.obligations:
        # a clause copied from ANOTHER property's statement is decided by that property's check, not here
        lab = o.name.split('post[', 1)[1].rsplit(']@', 1)[0] if '/post[' in o.name else None
        if lab is not None and lab in foreign:
            nforeign += 1
            continue
        keep.append(o)
    res = _discharge_grouped(keep, tier, nthreads)
    s = z3.Solver()
    s.set('timeout', 5000)
    s.add(*getattr(fr, 'pre', []))
    return {'qual': q, 'error': fr.error, 'warnings': getattr(fr, 'warnings', []), 'paths': fr.paths, 'exits': fr.exits, 'inlined': fr.inlined,
            'used_contracts': fr.used_contracts, 'meta': fr.fi.describe() if fr.fi is not None else None,
            'seconds': fr.seconds, 'foreign': nforeign, 'pre_sat': str(s.check()) if not fr.error else 'n/a',
            'has_fi': fr.fi is not None,
            'obligations': [{'name': o.name, 'kind': o.kind,
                             'info': {'trace': o.info.get('trace'), 'trivial': o.info.get('trivial', False)},
                             'smt2_tail': getattr(o, 'smt2', '')[-600:], 'result': r} for o, r in zip(keep, res)]}


def _discharge_grouped(keep, tier, nthreads):
    """an obligation NAME is discharged only if every path instance is; so: one z3 pass over all instances, then the slower
    back ends on the instances still open -- but as soon as one instance of a name stays open, the other open instances of
    that name are not pursued (their verdict cannot change the name's)"""
    first = solve.discharge(keep, 'z3first' if tier == 'quick' else tier, cross=(tier == 'thorough'), procs=nthreads, threads=True)
    if tier != 'quick':
        return first
    res = list(first)
    open_idx = [i for i, r in enumerate(res) if r['verdict'] != 'unsat']
    failed_names = set(keep[i].name for i in open_idx if res[i]['verdict'] == 'sat')
    by_name = {}
    for i in open_idx:
        if keep[i].name not in failed_names:
            by_name.setdefault(keep[i].name, []).append(i)
    pending = {n: list(ix) for n, ix in by_name.items()}
    while pending:
        batch = [(n, ix.pop(0)) for n, ix in pending.items()]
        out = solve.discharge([keep[i] for _, i in batch], 'cvc5only', procs=max(2, nthreads), threads=True)
        for (n, i), r in zip(batch, out):
            r['tried'] = res[i]['tried'] + r['tried']
            r['seconds'] += res[i]['seconds']
            res[i] = r
            if r['verdict'] != 'unsat' or not pending[n]:
                del pending[n]      # open whatever the remaining instances say / all instances done
    return res


def _verified_anywhere():
    import glob
    out = set()
    for f in glob.glob(os.path.join(HERE, 'props', 'C*.py')):
        try:
            ns = {}
            with open(f) as fh:
                exec(fh.read(), ns)
            out |= set(ns['PROP'].get('functions', []))
        except Exception:
            pass
    return out


def _safe(name):
    return ''.join(ch if ch.isalnum() or ch in '._-' else '_' for ch in name)[:150]


def _count(it):
    d = {}
    for x in it:
        d[x] = d.get(x, 0) + 1
    return d


if __name__ == '__main__':
    main(sys.argv[1:])
