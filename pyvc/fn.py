"""developer tool: verify one function and print its obligations"""
import sys, time
from pyvc import engine, solve
import contracts  # noqa

def main():
    quals = [a for a in sys.argv[1:] if not a.startswith('-')]
    verbose = '-v' in sys.argv
    mut = None
    for a in sys.argv[1:]:
        if a.startswith('--mut='):
            mut = tuple(a[6:].split('=>'))
    eng = engine.Engine()
    for q in quals:
        r = eng.verify_function(q, mutate=mut)
        print('==', q, 'paths', r.paths, 'obligations', len(r.obligations), 'gen %.2fs' % r.seconds, r.error or '')
        for w in getattr(r, 'warnings', []):
            print('  WARNING', w)
        if r.error:
            continue
        t0 = time.time()
        res = solve.discharge(r.obligations, 'quick')
        for o, s in zip(r.obligations, res):
            flag = {'unsat': 'ok  ', 'sat': 'FAIL', 'unknown': '??  '}[s['verdict']]
            print('  %s %-70s %s %.2fs' % (flag, o.name, s['backend'], s['seconds']))
            if s['verdict'] != 'unsat' and verbose:
                print('      trace:', o.info.get('trace'))
                if s['model']:
                    for k, v in sorted(s['model'].items()):
                        if k.startswith('p_') or k in ('NOW',):
                            print('      ', k, '=', v[:200])
        print('   solved in %.2fs; inlined=%s' % (time.time() - t0, r.inlined))
        open_names = set(o.name for o, x in zip(r.obligations, res) if x['verdict'] != 'unsat')
        for K in (2, 3):
            if not open_names:
                break
            rb = eng.verify_function(q, mutate=mut, bound=K)
            obs = [o for o in rb.obligations if o.name in open_names or (any('/inv-' in n for n in open_names) and o.kind in ('post','raises'))]
            resb = solve.discharge(obs, 'quick')
            for o, x in zip(obs, resb):
                if x['verdict'] != 'unsat':
                    print('  bounded K=%d %-60s %s %s %.2fs' % (K, o.name, x['verdict'], x['backend'], x['seconds']))
                if x['verdict'] == 'sat':
                    open_names.discard(o.name)
                    if verbose and x['model']:
                        print('       path:', o.info.get('trace'))
                        for k, v in sorted(x['model'].items()):
                            if '-vv' in sys.argv or k.startswith('p_') or k == 'NOW':
                                print('      ', k, '=', v[:300])

main()
