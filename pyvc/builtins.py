"""Python builtins and str/list/dict methods the verified functions use, with their exceptions.
String operations beyond SMT-LIB are uninterpreted functions constrained by the axiom set A-STR."""
import ast
import z3
from .sorts import *      # noqa
from . import types as Ty
from . import front
from .front import Unsupported
from .state import class_seq
from .state import tid, sel_L
from .state import (SV, const_sv, truthy, shape, field_type, KIND, CLS, cls_in, new_list, new_dict,
                    new_list_from_seq, alloc, elem_type, int_of, str_of, val_of, ghost, GHOSTS)
from .execcall import builtin, method, BUILTIN_FUNCS
from .execexpr import is_prim
from . import spec as SP

AXIOMS = {}     # function name -> list of closed z3 formulas, added to an obligation only if it mentions the name


def narrow(ex, st, v, want, raises, exc='builtins:TypeError'):
    """argument that must be of primitive type `want`: exact static type passes; an optional / union / unknown
    static type is decided by the run-time shape (the other shapes raise `exc`)"""
    if v.ty == want:
        return st, v
    if isinstance(v.ty, (Ty.TOpt, Ty.TUnion, Ty.TAny)):
        ok, bad = ex.fork(st, shape(st, v.term, want), None)
        if bad is not None:
            raises.append(ex.raised(bad, exc))
        if ok is None:
            return None, None
        return ok, SV(v.term, want)
    raises.append(ex.raised(st, exc))
    return None, None


def B(z):
    return SV(VBool(z), Ty.BOOL)


def S(z):
    return SV(VStr(z), Ty.STR)


def I(z):
    return SV(VInt(z), Ty.INT)


# ------------------------------------------------------------------------------------ A-STR
f_strip = z3.Function('strip', StrS, StrS)
f_lower = z3.Function('lower', StrS, StrS)
f_upper = z3.Function('upper', StrS, StrS)
f_splitlines = z3.Function('splitlines', StrS, SeqVal)
f_split = z3.Function('split', StrS, StrS, SeqVal)          # split(s, sep)
f_join = z3.Function('join', StrS, SeqVal, StrS)            # join(sep, seq of VStr)
f_wsplit = z3.Function('wsplit', StrS, SeqVal)              # s.split(): the whitespace-separated words of s
f_replace_all = z3.Function('replace_all', StrS, StrS, StrS, StrS)
f_encode = z3.Function('utf8', StrS, StrS)                  # str -> bytes (as latin-1 carried string)
f_decode = z3.Function('unutf8', StrS, StrS)
f_is_ws = z3.Function('is_ws_char', StrS, BoolS)
SP.STR_FUNCS.update(strip=f_strip, lower=f_lower, upper=f_upper, utf8=f_encode, unutf8=f_decode,
                    replace_all=f_replace_all, join=f_join)

_s, _t, _u = z3.Strings('ax_s ax_t ax_u')
_i = z3.Int('ax_i')
_q = z3.Const('ax_q', SeqVal)
AXIOMS['strip'] = [
    z3.ForAll([_s], f_strip(f_strip(_s)) == f_strip(_s), patterns=[f_strip(_s)]),
    z3.ForAll([_s], z3.Length(f_strip(_s)) <= z3.Length(_s), patterns=[f_strip(_s)]),
    z3.ForAll([_s], z3.Contains(_s, f_strip(_s)), patterns=[f_strip(_s)]),
]
AXIOMS['lower'] = [
    z3.ForAll([_s], f_lower(f_lower(_s)) == f_lower(_s), patterns=[f_lower(_s)]),
    z3.ForAll([_s], z3.Length(f_lower(_s)) == z3.Length(_s), patterns=[f_lower(_s)]),
]
AXIOMS['splitlines'] = [
    z3.ForAll([_s, _i], Implies(And(0 <= _i, _i < z3.Length(f_splitlines(_s))), is_str(f_splitlines(_s)[_i])),
              patterns=[f_splitlines(_s)[_i]]),
]
AXIOMS['split'] = [
    z3.ForAll([_s, _t, _i], Implies(And(0 <= _i, _i < z3.Length(f_split(_s, _t))), is_str(f_split(_s, _t)[_i])),
              patterns=[f_split(_s, _t)[_i]]),
    z3.ForAll([_s, _t], z3.Length(f_split(_s, _t)) >= 1, patterns=[f_split(_s, _t)]),
    # sep not in s  =>  split(s, sep) == [s]
    z3.ForAll([_s, _t], Implies(And(z3.Length(_t) > 0, Not(z3.Contains(_s, _t))),
                                f_split(_s, _t) == z3.Unit(VStr(_s))), patterns=[f_split(_s, _t)]),
    # split inverts join on separator-free pieces
    z3.ForAll([_t, _q], Implies(And(z3.Length(_t) > 0, z3.Length(_q) >= 1,
                                    z3.ForAll([_i], Implies(And(0 <= _i, _i < z3.Length(_q)),
                                                            And(is_str(_q[_i]), Not(z3.Contains(vs(_q[_i]), _t)))))),
                                f_split(f_join(_t, _q), _t) == _q), patterns=[f_split(f_join(_t, _q), _t)]),
]
def _word(s, w):
    """A-STR (partial): a word of s.split() is a non-empty string without blank, tab or newline that occurs in s"""
    return And(is_str(w), z3.Length(vs(w)) > 0, z3.Contains(s, vs(w)), Not(z3.Contains(vs(w), z3.StringVal(' '))),
               Not(z3.Contains(vs(w), z3.StringVal('\n'))), Not(z3.Contains(vs(w), z3.StringVal('\t'))))


AXIOMS['wsplit'] = [
    z3.ForAll([_s, _i], Implies(And(0 <= _i, _i < z3.Length(f_wsplit(_s))), _word(_s, f_wsplit(_s)[_i])), patterns=[f_wsplit(_s)[_i]]),
]
AXIOMS['join'] = [
    z3.ForAll([_t], f_join(_t, z3.Empty(SeqVal)) == z3.StringVal(''), patterns=[f_join(_t, z3.Empty(SeqVal))]),
    z3.ForAll([_t, _s], f_join(_t, z3.Unit(VStr(_s))) == _s, patterns=[f_join(_t, z3.Unit(VStr(_s)))]),
    z3.ForAll([_t, _q, _s], Implies(z3.Length(_q) >= 1,
                                    f_join(_t, z3.Concat(_q, z3.Unit(VStr(_s)))) == z3.Concat(f_join(_t, _q), _t, _s)),
              patterns=[f_join(_t, z3.Concat(_q, z3.Unit(VStr(_s))))]),
]
_v = z3.Const('ax_v', Val)
AXIOMS['join'] += [
    # join of split gives the string back; appending one string appends separator + string
    z3.ForAll([_s, _t], Implies(z3.Length(_t) > 0, f_join(_t, f_split(_s, _t)) == _s), patterns=[f_split(_s, _t)]),
    z3.ForAll([_t, _q, _v], Implies(And(z3.Length(_q) >= 1, is_str(_v)),
                                    f_join(_t, z3.Concat(_q, z3.Unit(_v))) == z3.Concat(f_join(_t, _q), _t, vs(_v))),
              patterns=[f_join(_t, z3.Concat(_q, z3.Unit(_v)))]),
    z3.ForAll([_t, _v], Implies(is_str(_v), f_join(_t, z3.Unit(_v)) == vs(_v)), patterns=[f_join(_t, z3.Unit(_v))]),
]
AXIOMS['split'] += [z3.ForAll([_s, _t], Implies(z3.Length(_t) > 0, f_join(_t, f_split(_s, _t)) == _s), patterns=[f_split(_s, _t)])]
AXIOMS['utf8'] = [
    z3.ForAll([_s], f_decode(f_encode(_s)) == _s, patterns=[f_encode(_s)]),
]
AXIOMS['unutf8'] = []


# ------------------------------------------------------------------------------------ builtin functions
def _one(ex, st, args, kwargs, n, name):
    if len(args) != n or kwargs:
        raise Unsupported('%s with %d arguments / keywords' % (name, len(args)))


@builtin('builtins:len')
def b_len(ex, st, args, kwargs, node):
    _one(ex, st, args, kwargs, 1, 'len')
    v = args[0]
    ty = v.ty
    if isinstance(ty, Ty.TOpt):
        nn, isn = ex.fork(st, Not(is_none(v.term)), None)
        raises = [ex.raised(isn, 'builtins:TypeError')] if isn is not None else []
        if nn is None:
            return [], raises
        ns, rs = b_len(ex, nn, [SV(v.term, ty.t)], {}, node)
        return ns, raises + rs
    if isinstance(ty, Ty.TNone):
        return [], [ex.raised(st, 'builtins:TypeError')]
    if isinstance(ty, Ty.TStr):
        return [(st, I(z3.Length(vs(v.term))))], []
    if isinstance(ty, Ty.TBytes):
        return [(st, I(z3.Length(vy(v.term))))], []
    if isinstance(ty, (Ty.TList, Ty.TTuple)):
        return [(st, I(z3.Length(sel_L(st, va(v.term)))))], []
    if isinstance(ty, (Ty.TDict, Ty.TSet)):
        return [(st, I(st.DSZ[va(v.term)]))], []
    if isinstance(ty, Ty.TInst) and class_seq(ty.cls):
        g, _ = class_seq(ty.cls)
        return [(st, I(z3.Length(GHOSTS[g][0](v.term))))], []
    if isinstance(ty, Ty.TInst):
        owner, member = front.method_owner(ty.cls, '__len__')
        if owner is not None:
            fq = '%s:%s' % (member.__module__, member.__qualname__)
            return ex.call_function(st, SV(VNone, Ty.TFunc(fq, recv=v)), [], {}, node)
        return [], [ex.raised(st, 'builtins:TypeError')]
    if isinstance(ty, Ty.TAny):
        # unknown static type: a str / bytes / list / tuple / dict / set has its length, anything else here is a TypeError
        # (instances with __len__ are not expected behind an untyped value; they would need a declared type)
        t = v.term
        a = va(t)
        normals, raises = [], []
        rest = st
        for cond, mk in ((is_str(t), lambda c: I(z3.Length(vs(t)))), (is_bytes(t), lambda c: I(z3.Length(vy(t)))),
                         (And(is_ref(t), Or(KIND(a) == K_LIST, KIND(a) == K_TUPLE)), lambda c: I(z3.Length(sel_L(c, a)))),
                         (And(is_ref(t), Or(KIND(a) == K_DICT, KIND(a) == K_SET)), lambda c: I(c.DSZ[a]))):
            if rest is None:
                break
            yes, rest = ex.fork(rest.copy(), cond, None)
            if yes is not None:
                normals.append((yes, mk(yes)))
        if rest is not None:
            raises.append(ex.raised(rest, 'builtins:TypeError'))
        return normals, raises
    raise Unsupported('len of %r (line %d)' % (ty, node.lineno))


def _class_arg(ex, v):
    """classes named by the second argument of isinstance -> list of ('prim', T) | ('cls', qual)"""
    if v.has_py and isinstance(v.py, tuple):
        out = []
        for c in v.py:
            out.extend(_class_from_py(c))
        return out
    if isinstance(v.ty, Ty.TCls) and v.ty.name:
        return _class_from_py(front.cls_obj(v.ty.name))
    if isinstance(v.ty, Ty.TTuple):
        raise Unsupported('isinstance with a symbolic tuple of classes')
    raise Unsupported('isinstance with a symbolic class')


def _class_from_py(c):
    prim = {str: Ty.STR, int: Ty.INT, bool: Ty.BOOL, bytes: Ty.BYTES, type(None): Ty.NONE}
    if c in prim:
        return [('prim', prim[c])]
    if c in (list, tuple, dict, set):
        return [('kind', {list: K_LIST, tuple: K_TUPLE, dict: K_DICT, set: K_SET}[c])]
    if c is type:
        return [('isclass', None)]
    if isinstance(c, type):
        return [('cls', front.cls_qual(c))]
    raise Unsupported('isinstance class %r' % (c,))


@builtin('builtins:isinstance')
def b_isinstance(ex, st, args, kwargs, node):
    _one(ex, st, args, kwargs, 2, 'isinstance')
    v, cv = args
    # tuple display of classes: evaluated to a tuple SV whose elements are class values
    if isinstance(cv.ty, Ty.TTuple) and not cv.has_py:
        elems = [SV(sel_L(st, va(cv.term))[i], t) for i, t in enumerate(cv.ty.ts)]
        specs = []
        for e in elems:
            specs.extend(_class_arg(ex, e))
    else:
        specs = _class_arg(ex, cv)
    t = v.term
    conds = []
    for kind, payload in specs:
        if kind == 'prim':
            if isinstance(payload, Ty.TInt):
                conds.append(Or(is_int(t), is_bool(t)))
            else:
                conds.append(shape(st, t, payload))
        elif kind == 'kind':
            conds.append(And(is_ref(t), KIND(va(t)) == payload))
        elif kind == 'isclass':
            conds.append(is_cls(t))
        else:
            conds.append(And(is_ref(t), KIND(va(t)) == K_INST, cls_in(CLS(va(t)), payload)))
    return [(st, B(Or(*conds)))], []


@builtin('builtins:hasattr')
def b_hasattr(ex, st, args, kwargs, node):
    _one(ex, st, args, kwargs, 2, 'hasattr')
    v, name = args
    if not (name.has_py and isinstance(name.py, str)):
        raise Unsupported('hasattr with a symbolic name')
    ty = v.ty
    if isinstance(ty, Ty.TOpt):
        inner = Ty.strip_opt(ty)
        if isinstance(inner, Ty.TInst):
            has = field_type(inner.cls, name.py) is not None or front.method_owner(inner.cls, name.py)[0] is not None
            return [(st, B(And(Not(is_none(v.term)), z3.BoolVal(has))))], []
    if isinstance(ty, Ty.TInst):
        has = field_type(ty.cls, name.py) is not None or front.method_owner(ty.cls, name.py)[0] is not None
        return [(st, B(z3.BoolVal(has)))], []
    if isinstance(ty, Ty.TNone):
        return [(st, B(FALSE))], []
    raise Unsupported('hasattr on %r' % (ty,))


@builtin('builtins:getattr')
def b_getattr(ex, st, args, kwargs, node):
    if kwargs or len(args) not in (2, 3):
        raise Unsupported('getattr form')
    v, name = args[0], args[1]
    if not (name.has_py and isinstance(name.py, str)):
        raise Unsupported('getattr with a symbolic name (line %d)' % node.lineno)
    ns, rs = ex.read_field(st, v, name.py)
    if len(args) == 3:
        out = list(ns)
        keep = []
        for r in rs:
            if r.exc.clsq == 'builtins:AttributeError':
                out.append((r.st, args[2]))
            else:
                keep.append(r)
        return out, keep
    return ns, rs


@builtin('builtins:bool')
def b_bool(ex, st, args, kwargs, node):
    if not args:
        return [(st, B(FALSE))], []
    return [(st, B(truthy(st, args[0])))], []


@builtin('builtins:str')
def b_str(ex, st, args, kwargs, node):
    if not args:
        return [(st, const_sv(''))], []
    v = args[0]
    if isinstance(v.ty, Ty.TStr):
        return [(st, v)], []
    if isinstance(v.ty, Ty.TInt):
        i = vi(v.term)
        return [(st, S(z3.If(i >= 0, z3.IntToStr(i), z3.Concat(z3.StringVal('-'), z3.IntToStr(-i)))))], []
    # str() of anything else: some string (over-approximation; never raises for the classes in scope)
    return [(st, S(fresh('str', StrS)))], []


@builtin('builtins:int')
def b_int(ex, st, args, kwargs, node):
    _one(ex, st, args, kwargs, 1, 'int')
    v = args[0]
    if isinstance(v.ty, (Ty.TInt, Ty.TBool)):
        return [(st, I(int_of(v)))], []
    if isinstance(v.ty, Ty.TNone):
        return [], [ex.raised(st, 'builtins:TypeError')]
    if isinstance(v.ty, Ty.TStr):
        # exact for plain decimal numerals; any other spelling that int() accepts (sign, spaces, underscores)
        # yields an unconstrained integer, a non-numeral raises ValueError
        # int() is a FUNCTION of the text (A-STR): int_ok(s) says whether it parses, int_val(s) is the value
        s = vs(v.term)
        num = z3.StrToInt(s)
        from .state import ghost as _ghost
        f_ok, f_val = _ghost('int_ok', ['Val'], 'Bool')[0], _ghost('int_val', ['Val'], 'Int')[0]
        r, ok = f_val(VStr(s)), f_ok(VStr(s))
        st.assume(Implies(num >= 0, And(ok, r == num)))
        good, bad = ex.fork(st, ok, None)
        raises = [ex.raised(bad, 'builtins:ValueError')] if bad is not None else []
        return ([(good, I(r))] if good is not None else []), raises
    if isinstance(v.ty, Ty.TAny):
        # unknown static type: a str parses or not, an int / bool is its own value, anything else is a TypeError
        normals, raises = [], []
        rest = st
        for t in (Ty.STR, Ty.INT, Ty.BOOL):
            if rest is None:
                break
            yes, rest = ex.fork(rest.copy(), shape(rest, v.term, t), None)
            if yes is not None:
                ns, rs = b_int(ex, yes, [SV(v.term, t)], kwargs, node)
                normals.extend(ns)
                raises.extend(rs)
        if rest is not None:
            raises.append(ex.raised(rest, 'builtins:TypeError'))
        return normals, raises
    if isinstance(v.ty, Ty.TOpt):
        nn, isn = ex.fork(st, Not(is_none(v.term)), None)
        raises = [ex.raised(isn, 'builtins:TypeError')] if isn is not None else []
        if nn is None:
            return [], raises
        ns, rs = b_int(ex, nn, [SV(v.term, v.ty.t)], {}, node)
        return ns, raises + rs
    raise Unsupported('int() of %r (line %d)' % (v.ty, node.lineno))


@builtin('builtins:float')
def b_float(ex, st, args, kwargs, node):
    _one(ex, st, args, kwargs, 1, 'float')
    v = args[0]
    from .state import new_instance
    if isinstance(v.ty, Ty.TNone):
        return [], [ex.raised(st, 'builtins:TypeError')]
    raises = []
    if isinstance(v.ty, Ty.TOpt):
        nn, isn = ex.fork(st, Not(is_none(v.term)), None)
        if isn is not None:
            raises.append(ex.raised(isn, 'builtins:TypeError'))
        if nn is None:
            return [], raises
        st = nn
    ok = fresh('float_ok', BoolS)
    good, bad = ex.fork(st, ok, None)
    if bad is not None:
        raises.append(ex.raised(bad, 'builtins:ValueError'))
    return ([(good, new_instance(good, 'builtins:float'))] if good is not None else []), raises


@builtin('builtins:list')
def b_list(ex, st, args, kwargs, node):
    if not args:
        return [(st, new_list(st, []))], []
    v = args[0]
    ty = Ty.strip_opt(v.ty)
    if isinstance(ty, (Ty.TList, Ty.TTuple)) and not isinstance(v.ty, Ty.TOpt):
        et = ty.t if isinstance(ty, Ty.TList) else Ty.ANY
        return [(st, new_list_from_seq(st, sel_L(st, va(v.term)), et))], []
    if isinstance(ty, Ty.TSet) and not isinstance(v.ty, Ty.TOpt):
        # list(set): some sequence with exactly the set's members (order unspecified)
        a = va(v.term)
        seq = fresh('fromset', SeqVal)
        x = fresh('lx', Val)
        st.assume(z3.ForAll([x], st.DK[a][x] == z3.Contains(seq, z3.Unit(x))))
        st.assume(z3.Length(seq) == st.DSZ[a])
        return [(st, new_list_from_seq(st, seq, ty.t))], []
    if isinstance(ty, Ty.TDict) and not isinstance(v.ty, Ty.TOpt) and not (v.has_py and isinstance(v.py, dict)):
        # list(d) / list(d.keys()): some sequence with exactly the dict's keys, one entry per key (order unspecified)
        a = va(v.term)
        seq = fresh('fromkeys', SeqVal)
        x = fresh('lk', Val)
        st.assume(z3.ForAll([x], st.DK[a][x] == z3.Contains(seq, z3.Unit(x))))
        st.assume(z3.Length(seq) == st.DSZ[a])
        return [(st, new_list_from_seq(st, seq, ty.k))], []
    raise Unsupported('list() of %r' % (v.ty,))


@builtin('builtins:dict')
def b_dict(ex, st, args, kwargs, node):
    if not args and not kwargs:
        return [(st, new_dict(st, []))], []
    if len(args) == 1 and not kwargs:
        from .execexpr import dict_view
        v = dict_view(args[0])
        if isinstance(v.ty, Ty.TDict):
            return m_copy(ex, st, v, [], {}, node)
    raise Unsupported('dict() with arguments')


@builtin('builtins:set')
def b_set(ex, st, args, kwargs, node):
    """set(list): membership-only model (keys present == elements of the sequence)"""
    a = alloc(st, K_SET)
    if not args:
        st.DK = z3.Store(st.DK, a, z3.K(Val, FALSE))
        st.DSZ = z3.Store(st.DSZ, a, z3.IntVal(0))
        return [(st, SV(VRef(a), Ty.TSet(Ty.ANY)))], []
    v = args[0]
    ty = Ty.strip_opt(v.ty)
    if not isinstance(ty, (Ty.TList, Ty.TTuple)) or isinstance(v.ty, Ty.TOpt):
        raise Unsupported('set() of %r' % (v.ty,))
    seq = sel_L(st, va(v.term))
    ks = fresh('setks', KeySet)
    x = fresh('sx', Val)
    st.assume(z3.ForAll([x], ks[x] == z3.Contains(seq, z3.Unit(x))))
    sz = fresh('setsz', IntS)
    st.assume(And(sz >= 0, sz <= z3.Length(seq), (sz == 0) == (z3.Length(seq) == 0)))
    st.DK = z3.Store(st.DK, a, ks)
    st.DSZ = z3.Store(st.DSZ, a, sz)
    return [(st, SV(VRef(a), Ty.TSet(ty.t if isinstance(ty, Ty.TList) else Ty.ANY)))], []


@builtin('builtins:type')
def b_type(ex, st, args, kwargs, node):
    raise Unsupported('type()')


# ------------------------------------------------------------------------------------ str methods
@method('str', 'strip')
def m_strip(ex, st, recv, args, kwargs, node):
    if args:
        raise Unsupported('strip with an argument')
    if recv.has_py:
        return [(st, const_sv(recv.py.strip()))], []
    return [(st, S(f_strip(vs(recv.term))))], []


@method('str', 'lower')
def m_lower(ex, st, recv, args, kwargs, node):
    if recv.has_py:
        return [(st, const_sv(recv.py.lower()))], []
    return [(st, S(f_lower(vs(recv.term))))], []


@method('str', 'upper')
def m_upper(ex, st, recv, args, kwargs, node):
    return [(st, S(f_upper(vs(recv.term))))], []


@method('str', 'splitlines')
def m_splitlines(ex, st, recv, args, kwargs, node):
    seq = f_splitlines(vs(recv.term))
    return [(st, new_list_from_seq(st, seq, Ty.STR))], []


@method('str', 'split')
def m_split(ex, st, recv, args, kwargs, node):
    if not args and not kwargs:
        # whitespace split: only the partial axioms of wsplit are known (each word is a blank-free non-empty piece of s)
        return [(st, new_list_from_seq(st, f_wsplit(vs(recv.term)), Ty.STR))], []
    if len(args) != 1 or not isinstance(args[0].ty, Ty.TStr):
        raise Unsupported('split form')
    sep = str_of(args[0])
    ok, bad = ex.fork(st, z3.Length(sep) > 0, None)
    raises = [ex.raised(bad, 'builtins:ValueError')] if bad is not None else []
    if ok is None:
        return [], raises
    return [(ok, new_list_from_seq(ok, f_split(vs(recv.term), sep), Ty.STR))], raises


@method('str', 'join')
def m_join(ex, st, recv, args, kwargs, node):
    v = args[0]
    ty = Ty.strip_opt(v.ty)
    if not isinstance(ty, (Ty.TList, Ty.TTuple)):
        raise Unsupported('join over %r' % (v.ty,))
    known = st.notes.get(('elems', tid(v.term)))
    if known is not None and all(isinstance(e.ty, Ty.TStr) for e in known):
        # a list built in this function whose elements are statically known: the join is the concatenation
        if not known:
            return [(st, const_sv(''))], []
        parts = []
        for i, e in enumerate(known):
            if i:
                parts.append(str_of(recv))
            parts.append(str_of(e))
        return [(st, S(parts[0] if len(parts) == 1 else z3.Concat(*parts)))], []
    et = ty.t if isinstance(ty, Ty.TList) else Ty.join(*ty.ts[:2]) if len(ty.ts) >= 2 else (ty.ts[0] if ty.ts else Ty.STR)
    if isinstance(ty, Ty.TList) and not isinstance(et, Ty.TStr):
        raise Unsupported('join over a list of %r' % (et,))
    return [(st, S(f_join(str_of(recv), sel_L(st, va(v.term)))))], []


@method('str', 'startswith')
def m_startswith(ex, st, recv, args, kwargs, node):
    return [(st, B(z3.PrefixOf(str_of(args[0]), vs(recv.term))))], []


@method('str', 'endswith')
def m_endswith(ex, st, recv, args, kwargs, node):
    return [(st, B(z3.SuffixOf(str_of(args[0]), vs(recv.term))))], []


@method('str', 'find')
def m_find(ex, st, recv, args, kwargs, node):
    if len(args) != 1:
        raise Unsupported('find with start/end')
    return [(st, I(z3.IndexOf(vs(recv.term), str_of(args[0]), 0)))], []


@method('str', 'index')
def m_index(ex, st, recv, args, kwargs, node):
    if len(args) != 1:
        raise Unsupported('index with start/end')
    i = z3.IndexOf(vs(recv.term), str_of(args[0]), 0)
    ok, bad = ex.fork(st, i >= 0, None)
    raises = [ex.raised(bad, 'builtins:ValueError')] if bad is not None else []
    return ([(ok, I(i))] if ok is not None else []), raises


@method('str', 'replace')
def m_replace(ex, st, recv, args, kwargs, node):
    if len(args) != 2:
        raise Unsupported('replace with count')
    return [(st, S(f_replace_all(vs(recv.term), str_of(args[0]), str_of(args[1]))))], []


@method('str', 'encode')
def m_encode(ex, st, recv, args, kwargs, node):
    return [(st, SV(VBytes(f_encode(vs(recv.term))), Ty.BYTES))], []


@method('bytes', 'decode')
def m_decode(ex, st, recv, args, kwargs, node):
    # may raise UnicodeDecodeError for arbitrary bytes
    ok = fresh('decodable', BoolS)
    good, bad = ex.fork(st, ok, None)
    raises = [ex.raised(bad, 'builtins:UnicodeDecodeError')] if bad is not None else []
    return ([(good, S(f_decode(vy(recv.term))))] if good is not None else []), raises


@method('str', 'format')
def m_format(ex, st, recv, args, kwargs, node):
    """exact for constant templates with plain {name} / {} fields and str arguments; otherwise some string"""
    import re as _re
    if recv.has_py and isinstance(recv.py, str):
        parts = _re.split(r'(\{[A-Za-z_0-9]*\})', recv.py)
        out, pos, ok = [], 0, True
        for p in parts:
            if _re.fullmatch(r'\{[A-Za-z_0-9]*\}', p):
                name = p[1:-1]
                if name == '' or name.isdigit():
                    idx = pos if name == '' else int(name)
                    pos += 1
                    v = args[idx] if idx < len(args) else None
                else:
                    v = kwargs.get(name)
                if v is None or not isinstance(v.ty, Ty.TStr):
                    ok = False
                    break
                out.append(v.py if v.has_py else str_of(v))
            elif p:
                if '{' in p or '}' in p:
                    ok = False
                    break
                out.append(p)
        if ok:
            if all(isinstance(x, str) for x in out):
                return [(st, const_sv(''.join(out)))], []
            out = [z3.StringVal(x) if isinstance(x, str) else x for x in out]
            return [(st, S(out[0] if len(out) == 1 else z3.Concat(*out)))], []
    return [(st, S(fresh('fmt', StrS)))], []


# ------------------------------------------------------------------------------------ list methods
@method('list', 'append')
def m_append(ex, st, recv, args, kwargs, node):
    a = va(recv.term)
    known = st.notes.pop(('elems', tid(recv.term)), None)
    if known is not None:
        st.notes[('elems', tid(recv.term))] = known + [args[0]]
    old = st.L[a]
    new = z3.Concat(old, z3.Unit(args[0].term))
    st.L = z3.Store(st.L, a, new)
    if SP.BOUND[0] is None:
        # consequences of the sequence theory, stated explicitly to help quantifier instantiation
        k = fresh('ak', IntS)
        oc, nc = fresh('app_old', SeqVal), fresh('app_new', SeqVal)
        st.assume(And(oc == old, nc == new))
        st.assume(z3.ForAll([k], Implies(And(0 <= k, k < z3.Length(oc)), nc[k] == oc[k]), patterns=[nc[k]]))
        st.assume(nc[z3.Length(oc)] == args[0].term)
        st.assume(z3.Length(nc) == z3.Length(oc) + 1)
        mx = fresh('am', Val)
        st.assume(z3.ForAll([mx], z3.Contains(nc, z3.Unit(mx)) == Or(z3.Contains(oc, z3.Unit(mx)), mx == args[0].term),
                            patterns=[z3.Contains(nc, z3.Unit(mx))]))
    return [(st, const_sv(None))], []


@method('list', 'extend')
def m_extend(ex, st, recv, args, kwargs, node):
    a = va(recv.term)
    v = args[0]
    if isinstance(v.ty, Ty.TAny):
        ex.oblige(st, And(is_ref(v.term), KIND(va(v.term)) == K_LIST), 'extend-argument-is-a-list@L%d' % node.lineno, 'pre-of-callee')
        st.assume(And(is_ref(v.term), KIND(va(v.term)) == K_LIST))
        v = SV(v.term, Ty.TList(Ty.ANY))
    if not isinstance(Ty.strip_opt(v.ty), (Ty.TList, Ty.TTuple)) or isinstance(v.ty, Ty.TOpt):
        raise Unsupported('extend with %r' % (v.ty,))
    k1, k2 = st.notes.pop(('elems', tid(recv.term)), None), st.notes.get(('elems', tid(v.term)))
    if k1 is not None and k2 is not None:
        st.notes[('elems', tid(recv.term))] = k1 + k2
    old, ext = st.L[a], sel_L(st, va(v.term))
    new = z3.Concat(old, ext)
    st.L = z3.Store(st.L, a, new)
    if SP.BOUND[0] is None:
        # membership in a concatenation, stated explicitly to help quantifier instantiation
        oc, ec, nc = fresh('ext_old', SeqVal), fresh('ext_arg', SeqVal), fresh('ext_new', SeqVal)
        st.assume(And(oc == old, ec == ext, nc == new))
        mx = fresh('em', Val)
        st.assume(z3.ForAll([mx], z3.Contains(nc, z3.Unit(mx)) == Or(z3.Contains(oc, z3.Unit(mx)), z3.Contains(ec, z3.Unit(mx))),
                            patterns=[z3.Contains(nc, z3.Unit(mx))]))
    return [(st, const_sv(None))], []


@method('list', 'remove')
def m_remove(ex, st, recv, args, kwargs, node):
    """lst.remove(x): deletes the first element equal to x, ValueError when there is none.  Element equality is value
    equality for None / bool / int / str / bytes elements and identity for references (objects without __eq__)."""
    a = va(recv.term)
    st.notes.pop(('elems', tid(recv.term)), None)
    old = st.L[a]
    x = args[0].term
    i = fresh('rm_i', IntS)
    present = z3.Contains(old, z3.Unit(x))
    st, absent = ex.fork(st, present, None)
    raises = [ex.raised(absent, 'builtins:ValueError')] if absent is not None else []
    if st is None:
        return [], raises
    j = fresh('rm_j', IntS)
    st.assume(And(0 <= i, i < z3.Length(old), old[i] == x,
                  z3.ForAll([j], Implies(And(0 <= j, j < i), old[j] != x), patterns=[old[j]])))
    new = z3.Concat(z3.SubSeq(old, 0, i), z3.SubSeq(old, i + 1, z3.Length(old) - i - 1))
    st.L = z3.Store(st.L, a, new)
    return [(st, const_sv(None))], raises


# ------------------------------------------------------------------------------------ dict methods
@method('dict', 'get')
def m_get(ex, st, recv, args, kwargs, node):
    a = va(recv.term)
    k = args[0]
    d = args[1] if len(args) > 1 else const_sv(None)
    ty = recv.ty
    v = st.DV[a][k.term]
    st.assume(Implies(st.DK[a][k.term], shape(st, v, ty.v)))
    r = z3.If(st.DK[a][k.term], v, d.term)
    return [(st, SV(r, Ty.join(ty.v, d.ty) if not isinstance(ty.v, Ty.TAny) else Ty.ANY))], []


@method('dict', 'values')
def m_values(ex, st, recv, args, kwargs, node):
    if recv.has_py and isinstance(recv.py, dict):
        return [(st, ex.lift_py(list(recv.py.values()), st))], []
    raise Unsupported('values() of a symbolic dict (line %d)' % node.lineno)


@method('dict', 'items')
def m_items(ex, st, recv, args, kwargs, node):
    if recv.has_py and isinstance(recv.py, dict):
        return [(st, ex.lift_py([(k, v) for k, v in recv.py.items()], st))], []
    raise Unsupported('items() of a symbolic dict (line %d)' % node.lineno)


@method('dict', 'keys')
def m_keys(ex, st, recv, args, kwargs, node):
    return [(st, SV(recv.term, Ty.TDict(recv.ty.k, recv.ty.v)))], []      # iterating a dict = iterating its keys


@method('dict', 'copy')
def m_copy(ex, st, recv, args, kwargs, node):
    a = va(recv.term)
    n = alloc(st, K_DICT)
    st.DK = z3.Store(st.DK, n, st.DK[a])
    st.DV = z3.Store(st.DV, n, st.DV[a])
    st.DSZ = z3.Store(st.DSZ, n, st.DSZ[a])
    if ('keys', tid(recv.term)) in st.notes:
        st.notes[('keys', tid(VRef(n)))] = list(st.notes[('keys', tid(recv.term))])
    return [(st, SV(VRef(n), recv.ty))], []


@method('dict', 'sync')
def m_sync(ex, st, recv, args, kwargs, node):
    """E-SHELVE: a shelve has sync() (no effect on the mapping), a plain dict raises AttributeError"""
    has = fresh('has_sync', BoolS)
    yes, no = ex.fork(st, has, None)
    raises = [ex.raised(no, 'builtins:AttributeError')] if no is not None else []
    return ([(yes, const_sv(None))] if yes is not None else []), raises


@method('dict', 'pop')
def m_dict_pop(ex, st, recv, args, kwargs, node):
    """d.pop(k): the value stored under k, which is removed; KeyError when absent (the one-argument form only)"""
    if len(args) != 1 or kwargs or (recv.has_py and isinstance(recv.py, dict)):
        raise Unsupported('dict.pop with a default / on a constant table (line %d)' % node.lineno)
    a = va(recv.term)
    k = args[0]
    ty = Ty.strip_opt(recv.ty)
    v = st.DV[a][k.term]
    st.assume(Implies(st.DK[a][k.term], shape(st, v, ty.v)))
    ns, rs = ex.del_item(st, recv, k)
    return [(s, SV(v, ty.v)) for s in ns], rs


@method('dict', 'update')
def m_update(ex, st, recv, args, kwargs, node):
    raise Unsupported('dict.update (needs a contract-level model)')


# ground instances of the A-STR axioms for the refutation mode (quantifier-free weakening)
AX_INST = {
    'strip': lambda s: [f_strip(f_strip(s)) == f_strip(s), z3.Length(f_strip(s)) <= z3.Length(s), z3.Contains(s, f_strip(s))],
    'lower': lambda s: [f_lower(f_lower(s)) == f_lower(s), z3.Length(f_lower(s)) == z3.Length(s)],
    'splitlines': lambda s: [Implies(z3.Length(f_splitlines(s)) > k, is_str(f_splitlines(s)[k])) for k in range(4)],
    'split': lambda s, t: [z3.Length(f_split(s, t)) >= 1] +
                          [Implies(z3.Length(f_split(s, t)) > k, is_str(f_split(s, t)[k])) for k in range(4)] +
                          [Implies(And(z3.Length(t) > 0, Not(z3.Contains(s, t))), f_split(s, t) == z3.Unit(VStr(s)))],
    'utf8': lambda s: [f_decode(f_encode(s)) == s],
    'wsplit': lambda s: [Implies(z3.Length(f_wsplit(s)) > k, _word(s, f_wsplit(s)[k])) for k in range(4)],
}
AX_INST['split'] = (lambda g: (lambda s, t: g(s, t) + [Implies(z3.Length(t) > 0, f_join(t, f_split(s, t)) == s)]))(AX_INST['split'])


def _join_inst(t, q):
    out = []
    if z3.is_app(q) and q.decl().kind() == z3.Z3_OP_SEQ_CONCAT and q.num_args() == 2:
        a, b = q.arg(0), q.arg(1)
        if z3.is_app(b) and b.decl().kind() == z3.Z3_OP_SEQ_UNIT:
            v = b.arg(0)
            out.append(Implies(And(z3.Length(a) >= 1, is_str(v)), f_join(t, q) == z3.Concat(f_join(t, a), t, vs(v))))
            out.append(Implies(And(z3.Length(a) == 0, is_str(v)), f_join(t, q) == vs(v)))
    return out


AX_INST['join'] = _join_inst


# ------------------------------------------------------------------------------------ E-URL / E-B64 (library functions)
f_urlenc1 = z3.Function('urlenc1', StrS, StrS, StrS)        # urlencode({k: v}) == quote_plus(k) + '=' + quote_plus(v)
f_b64 = z3.Function('b64', StrS, StrS)                      # base64.b64encode on byte strings
f_unb64 = z3.Function('unb64', StrS, StrS)
SP.STR_FUNCS.update(urlenc1=f_urlenc1, b64=f_b64, unb64=f_unb64)
AXIOMS['b64'] = [z3.ForAll([_s], f_unb64(f_b64(_s)) == _s, patterns=[f_b64(_s)])]
AXIOMS['unb64'] = []
AXIOMS['urlenc1'] = []
AX_INST['b64'] = lambda s: [f_unb64(f_b64(s)) == s]


def url_payload(v):
    """the octets urlencode percent-encodes: bytes as they are, text as UTF-8 (E-URL)"""
    return z3.If(is_bytes(v), vy(v), f_encode(vs(v)))


f_html_escape = z3.Function('html_escape', StrS, StrS)
f_rawdeflate = z3.Function('rawdeflate', StrS, StrS)       # zlib.compress(b)[2:-4]
f_zcompress = z3.Function('zcompress', StrS, StrS)
f_inflate = z3.Function('inflate', StrS, StrS)             # zlib.decompress(b, -15)
SP.STR_FUNCS.update(html_escape=f_html_escape, rawdeflate=f_rawdeflate, zcompress=f_zcompress, inflate=f_inflate)
AXIOMS['zcompress'] = [
    # E-ZLIB: a zlib stream is 2 header bytes + raw deflate data + 4 checksum bytes, and raw inflate inverts it
    z3.ForAll([_s], z3.Length(f_zcompress(_s)) >= 6, patterns=[f_zcompress(_s)]),
    z3.ForAll([_s], f_inflate(z3.SubString(f_zcompress(_s), 2, z3.Length(f_zcompress(_s)) - 6)) == _s,
              patterns=[f_zcompress(_s)]),
]
AXIOMS['html_escape'] = [
    # E-HTML: the escaped text contains no double quote, single quote or angle bracket
    z3.ForAll([_s], And(Not(z3.Contains(f_html_escape(_s), z3.StringVal('"'))),
                        Not(z3.Contains(f_html_escape(_s), z3.StringVal("'"))),
                        Not(z3.Contains(f_html_escape(_s), z3.StringVal('<'))),
                        Not(z3.Contains(f_html_escape(_s), z3.StringVal('>')))), patterns=[f_html_escape(_s)]),
]
AX_INST['zcompress'] = lambda s: [z3.Length(f_zcompress(s)) >= 6,
                                  f_inflate(z3.SubString(f_zcompress(s), 2, z3.Length(f_zcompress(s)) - 6)) == s]


@builtin('html:escape')
def b_html_escape(ex, st, args, kwargs, node):
    if len(args) != 1 or kwargs:
        raise Unsupported('html.escape form')
    raises = []
    st, v = narrow(ex, st, args[0], Ty.STR, raises, 'builtins:AttributeError')
    if st is None:
        return [], raises
    return [(st, S(f_html_escape(vs(v.term))))], raises


@builtin('zlib:compress')
def b_zcompress(ex, st, args, kwargs, node):
    raises = []
    st, v = narrow(ex, st, args[0], Ty.BYTES, raises)
    if st is None:
        return [], raises
    return [(st, SV(VBytes(f_zcompress(vy(v.term))), Ty.BYTES))], raises


@builtin('zlib:decompress')
def b_zdecompress(ex, st, args, kwargs, node):
    v = args[0]
    if not isinstance(v.ty, Ty.TBytes) or len(args) != 2 or not (args[1].has_py and args[1].py == -15):
        raise Unsupported('zlib.decompress form')
    ok = fresh('zlib_ok', BoolS)
    good, bad = ex.fork(st, ok, None)
    raises = [ex.raised(bad, 'builtins:Exception')] if bad is not None else []
    return ([(good, SV(VBytes(f_inflate(vy(v.term))), Ty.BYTES))] if good is not None else []), raises


@builtin('future.backports.urllib.parse:urlencode')
@builtin('urllib.parse:urlencode')
def b_urlencode(ex, st, args, kwargs, node):
    """exact (E-URL) for a mapping whose keys are statically known: the k=v pairs joined by '&' in insertion order"""
    d = args[0]
    keys = st.notes.get(('keys', tid(d.term)))
    if keys is None or kwargs or len(args) != 1:
        return [(st, S(fresh('urlencoded', StrS)))], []
    a = va(d.term)
    parts = []
    cur = [(st, [])]
    # keys that may be absent (conditional stores) are not tracked by the note: only literal / stored-constant keys
    for i, k in enumerate(keys):
        v = st.DV[a][lit(k)]
        if not isinstance(k, str):
            return [(st, S(fresh('urlencoded', StrS)))], []
        piece = f_urlenc1(z3.StringVal(k), url_payload(v))
        parts.append(piece)
    if not parts:
        return [(st, const_sv(''))], []
    out = parts[0]
    for p in parts[1:]:
        out = z3.Concat(out, z3.StringVal('&'), p)
    return [(st, S(out))], []


@builtin('base64:b64encode')
def b_b64encode(ex, st, args, kwargs, node):
    raises = []
    st, v = narrow(ex, st, args[0], Ty.BYTES, raises)
    if st is None:
        return [], raises
    return [(st, SV(VBytes(f_b64(vy(v.term))), Ty.BYTES))], raises


@builtin('base64:b64decode')
def b_b64decode(ex, st, args, kwargs, node):
    v = args[0]
    payload = z3.If(is_bytes(v.term), vy(v.term), vs(v.term))
    if isinstance(v.ty, Ty.TBytes):
        payload = vy(v.term)
    elif isinstance(v.ty, Ty.TStr):
        payload = vs(v.term)
    ok = fresh('b64_ok', BoolS)
    good, bad = ex.fork(st, ok, None)
    raises = [ex.raised(bad, 'builtins:ValueError')] if bad is not None else []
    return ([(good, SV(VBytes(f_unb64(payload)), Ty.BYTES))] if good is not None else []), raises


f_quote = z3.Function('quote', StrS, StrS)          # urllib.parse.quote / unquote (E-URL)
f_unquote = z3.Function('unquote', StrS, StrS)
SP.STR_FUNCS.update(quote=f_quote, unquote=f_unquote)
AXIOMS['quote'] = [
    z3.ForAll([_s], f_unquote(f_quote(_s)) == _s, patterns=[f_quote(_s)]),
    z3.ForAll([_s], And(Not(z3.Contains(f_quote(_s), z3.StringVal(' '))), Not(z3.Contains(f_quote(_s), z3.StringVal(','))),
                        Not(z3.Contains(f_quote(_s), z3.StringVal('=')))), patterns=[f_quote(_s)]),
    z3.ForAll([_s], (z3.Length(f_quote(_s)) == 0) == (z3.Length(_s) == 0), patterns=[f_quote(_s)]),
]
AXIOMS['unquote'] = []
AX_INST['quote'] = lambda s: [f_unquote(f_quote(s)) == s, Not(z3.Contains(f_quote(s), z3.StringVal(' '))),
                              Not(z3.Contains(f_quote(s), z3.StringVal(','))), Not(z3.Contains(f_quote(s), z3.StringVal('='))),
                              (z3.Length(f_quote(s)) == 0) == (z3.Length(s) == 0)]


@builtin('urllib.parse:quote')
def b_quote(ex, st, args, kwargs, node):
    raises = []
    st, v = narrow(ex, st, args[0], Ty.STR, raises)
    if st is None:
        return [], raises
    return [(st, S(f_quote(vs(v.term))))], raises


@builtin('urllib.parse:unquote')
def b_unquote(ex, st, args, kwargs, node):
    raises = []
    st, v = narrow(ex, st, args[0], Ty.STR, raises)
    if st is None:
        return [], raises
    return [(st, S(f_unquote(vs(v.term))))], raises
