"""Symbolic executor, part 2: expressions, fields, items (DESIGN 2.4)."""
import ast
import z3
from .sorts import *      # noqa
from . import types as Ty
from . import front
from .front import Unsupported
from .state import tid, sel_L, in_pre
from .state import (SV, State, const_sv, truthy, shape, field_type, KIND, CLS, cls_in, new_list, new_dict,
                    new_exception, new_instance, new_list_from_seq, alloc, elem_type, int_of, str_of, val_of,
                    GHOSTS, CLASS_DECL)
from .execcore import Outcome, Exc, ExecCore, SeqHolder
from .state import merge_states
from . import spec as SP

from .state import GLOBAL_OBJECTS
ORDER_KEYS = {}         # class qual -> ghost name giving the integer that orders instances (E-CLOCK)


def global_object(qual, ty):
    GLOBAL_OBJECTS[qual] = Ty.parse_type(ty)


def order_key(clsq, ghostname):
    ORDER_KEYS[clsq] = ghostname


def _const_with_classes(v, depth=0):
    """generated tables: constants, classes and functions nested in tuples / lists / dicts"""
    import types as _t
    if isinstance(v, front.CONST_TYPES) or isinstance(v, type) or isinstance(v, _t.FunctionType):
        return True
    if depth > 4:
        return False
    if isinstance(v, (list, tuple)):
        return all(_const_with_classes(x, depth + 1) for x in v)
    if isinstance(v, dict):
        return all(isinstance(k, front.CONST_TYPES) and _const_with_classes(x, depth + 1) for k, x in v.items())
    return False


PRIM = (Ty.TNone, Ty.TBool, Ty.TInt, Ty.TStr, Ty.TBytes)


def dict_view(sv):
    """an instance of a dict subclass is used as a mapping stored at the object's own address"""
    ty = sv.ty
    if isinstance(ty, Ty.TInst):
        try:
            if issubclass(front.cls_obj(ty.cls), dict):
                return SV(sv.term, Ty.TDict(Ty.ANY, Ty.ANY), sv.py, sv.has_py)
        except Exception:
            pass
    return sv


def is_prim(ty):
    if isinstance(ty, Ty.TOpt):
        return is_prim(ty.t)
    return isinstance(ty, PRIM)


def compat(vt, ft):
    if isinstance(ft, Ty.TAny):
        return True
    if vt == ft:
        return True
    if isinstance(ft, Ty.TOpt):
        return isinstance(vt, Ty.TNone) or compat(vt, ft.t)
    if isinstance(ft, Ty.TUnion):
        return any(compat(vt, t) for t in ft.ts)
    if isinstance(vt, Ty.TInst) and isinstance(ft, Ty.TInst):
        try:
            return front.is_subclass(vt.cls, ft.cls)
        except Exception:
            return False
    if isinstance(vt, Ty.TList) and isinstance(ft, Ty.TList):
        return compat(vt.t, ft.t) or isinstance(vt.t, Ty.TAny)
    if isinstance(vt, Ty.TDict) and isinstance(ft, Ty.TDict):
        return True
    if isinstance(vt, Ty.TInst) and isinstance(ft, Ty.TDict):
        # an instance of a dict subclass that overrides none of the mapping methods is used as the mapping it is (A-PY)
        try:
            c = front.cls_obj(vt.cls)
            return issubclass(c, dict) and not any(m in k.__dict__ for k in c.__mro__ if k is not dict and k is not object
                                                   for m in ('__getitem__', '__setitem__', '__delitem__', '__contains__', 'get', 'keys',
                                                             'items', 'values', 'copy', '__iter__', '__len__', 'pop', 'update'))
        except Exception:
            return False
    if isinstance(vt, Ty.TBool) and isinstance(ft, Ty.TInt):
        return True
    return False


class ExecExpr(ExecCore):

    # ------------------------------------------------------------------ helpers
    def ev_many(self, nodes, st):
        """evaluate left to right -> ([(st, [SV...])], raises)"""
        cur = [(st, [])]
        raises = []
        for n in nodes:
            nxt = []
            for c, vals in cur:
                ns, rs = self.ev(n, c)
                raises.extend(rs)
                for c2, v in ns:
                    nxt.append((c2, vals + [v]))
            cur = nxt
        return cur, raises

    def ev(self, n, st):
        m = getattr(self, 'ex_' + n.__class__.__name__, None)
        if m is None:
            raise Unsupported('expression %s at line %d' % (n.__class__.__name__, getattr(n, 'lineno', 0)))
        return m(n, st)

    def lift_py(self, v, st):
        """concrete Python data (module constants, literals) -> symbolic value that remembers the concrete one"""
        if isinstance(v, front.CONST_TYPES):
            return const_sv(v)
        if isinstance(v, (list, tuple)):
            elems = [self.lift_py(x, st) for x in v]
            sv = new_list(st, elems, kind=K_TUPLE if isinstance(v, tuple) else K_LIST)
            sv.py, sv.has_py = v, True
            return sv
        if isinstance(v, dict):
            items = [(self.lift_py(k, st), self.lift_py(x, st)) for k, x in v.items()]
            sv = new_dict(st, items, infer_values=True)
            sv.py, sv.has_py = v, True
            return sv
        if isinstance(v, type):
            q = front.cls_qual(v)
            return SV(VCls(z3.IntVal(front.cls_id(q))), Ty.TCls(q), v, True)
        import types as _t
        if isinstance(v, _t.FunctionType):
            return SV(VNone, Ty.TFunc('%s:%s' % (v.__module__, v.__qualname__)), v, True)
        raise Unsupported('cannot lift %r' % (type(v),))

    def pattern_object(self, st, key):
        """a compiled regular expression held in a module / class attribute: an opaque object that existed at entry"""
        a = z3.Int('g_re_' + ''.join(ch if ch.isalnum() else '_' for ch in key))
        t = VRef(a)
        ty = Ty.TInst('re:Pattern')
        st.assume(And(a >= 0, a < z3.Int('next0')))
        st.assume(shape(st, t, ty))
        return SV(t, ty)

    def shared_container(self, st, clsq, attr, v):
        """a class-level list / dict / set that some function of the package mutates: process-wide STATE.  It is an object
        that existed at entry, of unknown contents (whatever earlier calls left in it); writes to it are writes to the
        pre-state heap and show up in the frame obligations"""
        a = z3.Int('g_%s_%s' % (clsq.replace(':', '_').replace('.', '_'), attr))
        t = VRef(a)
        ty = Ty.TDict(Ty.ANY, Ty.ANY) if isinstance(v, dict) else (Ty.TList(Ty.ANY) if isinstance(v, list) else Ty.TSet(Ty.ANY))
        st.assume(And(a >= 0, a < z3.Int('next0')))
        st.assume(shape(st, t, ty))
        return SV(t, ty)

    def global_value(self, modname, name, st):
        kind, payload = front.resolve_global(modname, name)
        if kind == 'const':
            return self.lift_py(payload, st)
        if kind == 'class':
            return SV(VCls(z3.IntVal(front.cls_id(payload))), Ty.TCls(payload))
        if kind == 'func':
            # a function reached as <module>.<name> may be defined elsewhere (closures of a factory, re-exports): a contract
            # registered under the access path names it
            alias = '%s:%s' % (front.MODULE_ALIASES.get(modname, modname), name)
            if payload not in SP.CONTRACTS and alias in SP.CONTRACTS:
                payload = alias
            return SV(VNone, Ty.TFunc(payload))
        if kind == 'module':
            return SV(VNone, Ty.TModule(payload))
        if kind == 'object' and isinstance(payload, __import__('re').Pattern):
            return self.pattern_object(st, '%s.%s' % (modname, name))
        if kind == 'object':
            q = '%s:%s' % (modname, name)
            if q not in GLOBAL_OBJECTS:
                # maybe defined in another module and imported by name
                for gq in GLOBAL_OBJECTS:
                    gm, gn = gq.split(':')
                    if gn == name and getattr(front.module_obj(gm), gn, None) is payload:
                        q = gq
                        break
            if q in GLOBAL_OBJECTS:
                ty = GLOBAL_OBJECTS[q]
                if isinstance(payload, dict) and all(isinstance(k, front.CONST_TYPES) for k in payload) \
                        and all(isinstance(x, type) for x in payload.values()):
                    # a table from constants to classes is finite ground data: lifted exactly
                    items = [(const_sv(k), self.lift_py(x, st)) for k, x in payload.items()]
                    sv = new_dict(st, items, infer_values=True)
                    sv.py, sv.has_py = payload, True
                    return sv
                a = z3.Int('g_' + q.replace(':', '_').replace('.', '_'))
                t = VRef(a)
                st.assume(And(a >= 0, a < z3.Int('next0')))
                st.assume(shape(st, t, ty))
                return SV(t, ty)
            if isinstance(payload, dict) and all(isinstance(k, front.CONST_TYPES) for k in payload) \
                    and all(isinstance(x, type) for x in payload.values()):
                items = [(const_sv(k), self.lift_py(x, st)) for k, x in payload.items()]
                sv = new_dict(st, items)
                sv.py, sv.has_py = payload, True
                return sv
            if _const_with_classes(payload):
                return self.lift_py(payload, st)
            raise Unsupported('module-level object %s.%s of type %s has no declared model' % (
                modname, name, type(payload).__name__))
        return None

    # ------------------------------------------------------------------ atoms
    def ex_Constant(self, n, st):
        if isinstance(n.value, front.CONST_TYPES):
            return [(st, const_sv(n.value))], []
        if isinstance(n.value, float):
            return [(st, new_instance(st, 'builtins:float'))], []     # floats are opaque values
        raise Unsupported('constant %r' % (n.value,))

    def ex_Name(self, n, st):
        if n.id in st.env:
            v = st.env[n.id]
            if isinstance(v, SeqHolder):
                raise Unsupported('ghost sequence used in code')
            return [(st, v)], []
        if n.id in self.local_names:
            return [], [self.raised(st, 'builtins:UnboundLocalError')]
        v = self.global_value(self.modname, n.id, st)
        if v is None:
            return [], [self.raised(st, 'builtins:NameError')]
        return [(st, v)], []

    def ex_Attribute(self, n, st):
        bn, br = self.ev(n.value, st)
        normals, raises = [], list(br)
        for c, base in bn:
            ns, rs = self.read_field(c, base, n.attr)
            normals.extend(ns)
            raises.extend(rs)
        return normals, raises

    def read_field(self, st, base, attr):
        ty = base.ty
        if isinstance(ty, Ty.TOpt):
            nn, isn = self.fork(st, Not(is_none(base.term)), None)
            raises = []
            normals = []
            if isn is not None:
                raises.append(self.raised(isn, 'builtins:AttributeError'))
            if nn is not None:
                ns, rs = self.read_field(nn, SV(base.term, ty.t, base.py, base.has_py), attr)
                normals.extend(ns)
                raises.extend(rs)
            return normals, raises
        if isinstance(ty, Ty.TNone):
            return [], [self.raised(st, 'builtins:AttributeError')]
        if isinstance(ty, Ty.TModule):
            mo = front.module_obj(ty.name)
            if not hasattr(mo, attr):
                return [], [self.raised(st, 'builtins:AttributeError')]
            v = self.global_value(ty.name, attr, st)
            return [(st, v)], []
        if isinstance(ty, Ty.TCls):
            c = front.cls_obj(ty.name)
            if hasattr(c, attr):
                v = getattr(c, attr)
                if front.is_shared_mutable(attr, v):
                    return [(st, self.shared_container(st, ty.name, attr, v))], []
                if isinstance(v, __import__('re').Pattern):
                    return [(st, self.pattern_object(st, '%s.%s' % (ty.name, attr)))], []
                if front.is_const_data(v) or isinstance(v, type) or _const_with_classes(v):
                    return [(st, self.lift_py(v, st))], []
                kind, payload = front.classify(v)
                if kind == 'func':
                    return [(st, SV(VNone, Ty.TFunc(payload)))], []
            raise Unsupported('class attribute %s.%s' % (ty.name, attr))
        if isinstance(ty, Ty.TInst) and attr == '__class__':
            # the static class is taken as the exact class: the caller's contract must pin it (requires cls_of(x) == ...)
            self.oblige(st, CLS(va(base.term)) == front.cls_id(ty.cls), 'exact-class[%s]' % ty.cls.split(':')[1], 'pre-of-callee')
            return [(st, SV(VCls(z3.IntVal(front.cls_id(ty.cls))), Ty.TCls(ty.cls)))], []
        if isinstance(ty, Ty.TInst):
            ft = field_type(ty.cls, attr)
            if ft is not None:
                untouched = attr not in st.heap or st.heap[attr].eq(z3.Const('H0_' + attr, FieldArr))
                term = st.field(attr)[va(base.term)]
                st.assume(shape(st, term, ft, pre=in_pre(untouched, va(base.term))))
                ov = getattr(self.contract, 'field_types', {}).get(attr) if getattr(self, 'contract', None) is not None else None
                if ov is not None:
                    self._narrow_k = getattr(self, '_narrow_k', 0) + 1
                    self.oblige(st, shape(st, term, ov), 'narrow[%s]#%d' % (attr, self._narrow_k), 'pre-of-callee')
                    st.assume(shape(st, term, ov))
                    ft = ov
                if isinstance(ft, Ty.TFunc) and ft.recv_field:
                    # a bound method stored in a field; its receiver is another field of the same object
                    rt = field_type(ty.cls, ft.recv_field)
                    rterm = st.field(ft.recv_field)[va(base.term)]
                    st.assume(shape(st, rterm, rt))
                    return [(st, SV(term, Ty.TFunc(ft.qual, recv=SV(rterm, rt))))], []
                return [(st, SV(term, ft))], []
            for k in front.cls_obj(ty.cls).__mro__:
                kq = front.cls_qual(k)
                if kq in CLASS_DECL and attr in CLASS_DECL[kq].get('methods', {}):
                    return [(st, SV(VNone, Ty.TFunc(CLASS_DECL[kq]['methods'][attr], recv=base)))], []
            owner, member = front.method_owner(ty.cls, attr)
            if owner is not None:
                if isinstance(member, property):
                    raise Unsupported('property %s.%s' % (ty.cls, attr))
                if isinstance(member, staticmethod):
                    f = member.__func__
                    return [(st, SV(VNone, Ty.TFunc('%s:%s' % (f.__module__, f.__qualname__))))], []
                if isinstance(member, classmethod):
                    f = member.__func__
                    clsv = SV(VCls(z3.IntVal(front.cls_id(ty.cls))), Ty.TCls(ty.cls))      # (static class taken as the class)
                    return [(st, SV(VNone, Ty.TFunc('%s:%s' % (f.__module__, f.__qualname__), recv=clsv)))], []
                if isinstance(member, __import__('re').Pattern):
                    return [(st, self.pattern_object(st, '%s.%s' % (front.cls_qual(owner), attr)))], []
                if callable(member) and hasattr(member, '__qualname__'):
                    mod = getattr(member, '__module__', None) or owner.__module__
                    return [(st, SV(VNone, Ty.TFunc('%s:%s' % (mod, member.__qualname__), recv=base)))], []
                if front.is_shared_mutable(attr, member):
                    return [(st, self.shared_container(st, front.cls_qual(owner), attr, member))], []
                if front.is_const_data(member) or isinstance(member, type):
                    if not front.member_is_uniform(ty.cls, attr):
                        # a class-level constant that subclasses override (c_tag, c_namespace, msgtype ...): the value read
                        # through an instance is the DYNAMIC class's; it is the static class's only if the object is exactly
                        # of that class -- an obligation, not an assumption
                        self.oblige(st, CLS(va(base.term)) == front.cls_id(ty.cls), 'exact-class[%s.%s]' % (ty.cls.split(':')[1], attr), 'pre-of-callee')
                        st.assume(CLS(va(base.term)) == front.cls_id(ty.cls))
                    return [(st, self.lift_py(member, st))], []
                raise Unsupported('class member %s.%s of type %s' % (ty.cls, attr, type(member).__name__))
            if self.class_assigns_field(ty.cls, attr):
                # a field the class assigns somewhere but the sidecar does not declare: any value, or not there yet
                term = st.field(attr)[va(base.term)]
                st.assume(shape(st, term, Ty.ANY))
                gone = st.copy()
                return [(st, SV(term, Ty.ANY))], [self.raised(gone, 'builtins:AttributeError')]
            # the static class is an upper bound: a registered subclass may declare the member
            subs = self.subclasses_with_field(ty.cls, attr)
            if subs:
                cid = CLS(va(base.term))
                has, no = self.fork(st, Or(*[cid == front.cls_id(q) for q in subs]), None)
                normals, raises = [], []
                if no is not None:
                    raises.append(self.raised(no, 'builtins:AttributeError'))
                if has is not None:
                    fts = set(repr(field_type(q, attr)) for q in subs)
                    if len(fts) != 1:
                        raise Unsupported('member %s has different types in subclasses of %s' % (attr, ty.cls))
                    ft = field_type(subs[0], attr)
                    term = has.field(attr)[va(base.term)]
                    has.assume(shape(has, term, ft))
                    normals.append((has, SV(term, ft)))
                return normals, raises
            return [], [self.raised(st, 'builtins:AttributeError')]
        if isinstance(ty, Ty.TAny):
            raise Unsupported('attribute .%s of a value with unknown static type (line %d)' % (attr, self.cur_line))
        raise Unsupported('attribute .%s of %r' % (attr, ty))

    _assigned_cache = {}
    _subfield_cache = {}

    def subclasses_with_field(self, clsq, attr):
        key = (clsq, attr)
        if key not in self._subfield_cache:
            out = []
            for i in front.subclass_ids(clsq):
                q = front.id_cls(i)
                if q != clsq and field_type(q, attr) is not None:
                    out.append(q)
            self._subfield_cache[key] = out
        return self._subfield_cache[key]

    def class_assigns_field(self, clsq, attr):
        key = clsq
        if key not in self._assigned_cache:
            names = set()
            c = front.cls_obj(clsq)
            for k in c.__mro__:
                if not getattr(k, '__module__', '').startswith(front.PKG):
                    continue
                try:
                    tree = front.module_ast(k.__module__)
                except front.FrontError:
                    continue
                for node in ast.walk(tree):
                    if isinstance(node, ast.ClassDef) and node.name == k.__name__:
                        for x in ast.walk(node):
                            if isinstance(x, ast.Attribute) and isinstance(x.ctx, ast.Store) and \
                                    isinstance(x.value, ast.Name) and x.value.id == 'self':
                                names.add(x.attr)
            self._assigned_cache[key] = names
        return attr in self._assigned_cache[key]

    def set_field(self, st, base, attr, v):
        ty = base.ty
        if isinstance(ty, Ty.TOpt):
            nn, isn = self.fork(st, Not(is_none(base.term)), None)
            raises, normals = [], []
            if isn is not None:
                raises.append(self.raised(isn, 'builtins:AttributeError'))
            if nn is not None:
                ns, rs = self.set_field(nn, SV(base.term, ty.t), attr, v)
                normals.extend(ns)
                raises.extend(rs)
            return normals, raises
        if not isinstance(ty, Ty.TInst):
            raise Unsupported('attribute store on %r' % (ty,))
        c = front.cls_obj(ty.cls)
        for k in c.__mro__:
            if '__setattr__' in k.__dict__ and k is not object:
                raise Unsupported('class %s overrides __setattr__' % ty.cls)
        ft = field_type(ty.cls, attr)
        if ft is None:
            if not self.class_assigns_field(ty.cls, attr):
                raise Unsupported('store to undeclared field %s of %s' % (attr, ty.cls))
            ft = Ty.ANY     # assigned by the class, not declared in the sidecar: untyped field
        if not compat(v.ty, ft):
            self.oblige(st, shape(st, v.term, ft), 'fieldtype[%s.%s]' % (ty.cls.split(':')[1], attr), 'fieldtype')
        st.heap[attr] = z3.Store(st.field(attr), z3.simplify(va(base.term)), v.term)
        return [st], []

    # ------------------------------------------------------------------ displays
    def ex_List(self, n, st):
        cur, raises = self.ev_many(n.elts, st)
        return [(c, new_list(c, vals)) for c, vals in cur], raises

    def ex_Tuple(self, n, st):
        cur, raises = self.ev_many(n.elts, st)
        return [(c, new_list(c, vals, kind=K_TUPLE)) for c, vals in cur], raises

    def ex_Dict(self, n, st):
        if any(k is None for k in n.keys):
            raise Unsupported('dict display with ** expansion')
        cur, raises = self.ev_many([x for kv in zip(n.keys, n.values) for x in kv], st)
        out = []
        for c, vals in cur:
            items = list(zip(vals[0::2], vals[1::2]))
            d = new_dict(c, items)
            if all(k.has_py for k, _ in items):
                c.notes[('keys', tid(d.term))] = [k.py for k, _ in items]
            out.append((c, d))
        return out, raises

    def ex_ListComp(self, n, st):
        """map-only comprehension [e(x) for x in xs]: the result is a fresh list R with len(R) == len(xs) and the
        contract's element relation elem(src_i, res_i) for every i; the relation is an obligation on the body
        evaluated for an arbitrary index (map rule).  Calls in the body must not modify the modelled heap."""
        if len(n.generators) != 1 or n.generators[0].is_async:
            raise Unsupported('comprehension with several generators (line %d)' % n.lineno)
        gen = n.generators[0]
        if gen.ifs:
            return self.filtered_const_comp(n, gen, st)
        k = self.comp_ordinals.setdefault(id(n), len(self.comp_ordinals))
        cspec = (getattr(self.contract, 'comps', None) or {}).get(k)
        normals, raises = self.ev(gen.iter, st)
        out = []
        for c, itv in normals:
            view = self.iter_view(c, itv)
            if view[0] == 'const' or SP.BOUND[0] is not None:
                if view[0] == 'const':
                    items = view[1]
                    cur = [(c, [])]
                else:
                    K = SP.BOUND[0]
                    _, seq, elty, axioms = view
                    for ax in axioms:
                        c.assume(ax)
                    c.assume(z3.Length(seq) <= K)
                    cur = None
                    # enumerate lengths 0..K
                    acc = []
                    for ln in range(K + 1):
                        cl = c.copy().assume(z3.Length(seq) == ln, 'f')
                        if not self.feasible(cl):
                            continue
                        its = []
                        for i in range(ln):
                            it = SV(seq[i], elty)
                            cl.assume(shape(cl, it.term, elty))
                            its.append(it)
                        acc.append((cl, its))
                    for cl, its in acc:
                        cur2 = [(cl, [])]
                        for it in its:
                            nxt = []
                            for c2, vals in cur2:
                                ns, rs = self.assign(gen.target, it, c2)
                                raises.extend(rs)
                                for c3 in ns:
                                    vn, vr = self.ev(n.elt, c3)
                                    raises.extend(vr)
                                    nxt.extend((c4, vals + [v]) for c4, v in vn)
                            cur2 = nxt
                        out.extend((c2, new_list(c2, vals)) for c2, vals in cur2)
                    continue
                for it in items:
                    nxt = []
                    for c2, vals in cur:
                        ns, rs = self.assign(gen.target, it, c2)
                        raises.extend(rs)
                        for c3 in ns:
                            vn, vr = self.ev(n.elt, c3)
                            raises.extend(vr)
                            nxt.extend((c4, vals + [v]) for c4, v in vn)
                    cur = nxt
                out.extend((c2, new_list(c2, vals)) for c2, vals in cur)
                continue
            if cspec is None:
                raise Unsupported('comprehension #%d over a symbolic sequence has no element relation in the contract' % k)
            _, seq, elty, axioms = view
            for ax in axioms:
                c.assume(ax)
            rty = Ty.parse_type(cspec.get('type', 'Any'))
            # body for an arbitrary index
            b = c.copy()
            iv = fresh('ci', IntS)
            b.assume(And(0 <= iv, iv < z3.Length(seq)), 'f')
            if self.feasible(b):
                it = SV(seq[iv], elty)
                b.assume(shape(b, it.term, elty))
                ns, rs = self.assign(gen.target, it, b)
                raises.extend(rs)
                for b1 in ns:
                    heap_before = (dict(b1.heap), b1.L, b1.DK, b1.DV)
                    vn, vr = self.ev(n.elt, b1)
                    raises.extend(vr)
                    for b2, v in vn:
                        if not (b2.L.eq(heap_before[1]) and b2.DK.eq(heap_before[2]) and
                                all(b2.heap.get(f) is None or b2.heap[f].eq(a) for f, a in heap_before[0].items())):
                            if not all(f in heap_before[0] and b2.heap[f].eq(heap_before[0][f]) for f in b2.heap
                                       if f in heap_before[0]):
                                raise Unsupported('comprehension body modifies the heap (line %d)' % n.lineno)
                        ev = SP.SpecEval(b2, dict(b2.env, src_i=it, res_i=v), self.modname, old=self.old_state,
                                         extra=self.let_values)
                        for lab, text in self.contract.labelled(cspec.get('elem', [])):
                            self.oblige(b2, ev.bool(text), 'comp-elem[%s]@comp#%d' % (lab, k), 'inv-keep')
                        self.oblige(b2, shape(b2, v.term, rty), 'comp-elem[type]@comp#%d' % k, 'inv-keep')
            # result
            R = fresh('comp', SeqVal)
            res = new_list_from_seq(c, R, rty)
            c.assume(z3.Length(R) == z3.Length(seq))
            qi = fresh('q_ci', IntS)
            body = []
            sv_src, sv_res = SV(seq[qi], elty), SV(R[qi], rty)
            ev = SP.SpecEval(c, dict(c.env, src_i=sv_src, res_i=sv_res), self.modname, old=self.old_state,
                             extra=self.let_values)
            for lab, text in self.contract.labelled(cspec.get('elem', [])):
                body.append(ev.bool(text))
            body.append(shape(c, R[qi], rty))
            c.assume(z3.ForAll([qi], Implies(And(0 <= qi, qi < z3.Length(R)), And(*body))))
            nn = fresh('next', IntS)
            c.assume(nn >= c.nxt)
            c.nxt = nn
            out.append((c, res))
        return out, raises

    def filtered_const_comp(self, n, gen, st):
        """[e(x) for x in CONST if c(x)] : unrolled exactly, one fork per filter decision"""
        normals, raises = self.ev(gen.iter, st)
        out = []
        for c, itv in normals:
            view = self.iter_view(c, itv)
            if view[0] != 'const' and SP.BOUND[0] is None:
                out.append(self.filtered_symbolic_comp(n, gen, c, view, raises))
                continue
            if view[0] != 'const':
                # bounded refutation mode: every length 0..K, then exactly as for a constant sequence
                K = SP.BOUND[0]
                _, seq, elty, axioms = view
                for ax in axioms:
                    c.assume(ax)
                c.assume(z3.Length(seq) <= K)
                for ln in range(K + 1):
                    cl = c.copy().assume(z3.Length(seq) == ln, 'f')
                    if not self.feasible(cl):
                        continue
                    its = []
                    for i in range(ln):
                        it = SV(seq[i], elty)
                        cl.assume(shape(cl, it.term, elty))
                        its.append(it)
                    out.extend(self._filter_items(n, gen, cl, its, raises))
                continue
            out.extend(self._filter_items(n, gen, c, view[1], raises))
        return out, raises

    def filtered_symbolic_comp(self, n, gen, c, view, raises):
        """[x for x in xs if c(x)] over a symbolic sequence, unbounded mode: the conditions are evaluated for an arbitrary element
        (what they can raise is a possible outcome; they must not modify the modelled heap) and the result is a fresh list of
        which only this is known: it is no longer than xs and each of its elements is an element of xs.  An over-approximation
        (which elements pass is not recorded): clauses that depend on the filter stay open and go to the bounded mode."""
        if not (isinstance(n.elt, ast.Name) and isinstance(gen.target, ast.Name) and n.elt.id == gen.target.id):
            raise Unsupported('filtering comprehension that also maps, over a symbolic sequence (line %d)' % n.lineno)
        _, seq, elty, axioms = view
        for ax in axioms:
            c.assume(ax)
        b = c.copy()
        iv = fresh('fi', IntS)
        b.assume(And(0 <= iv, iv < z3.Length(seq)), 'f')
        if self.feasible(b):
            it = SV(seq[iv], elty)
            b.assume(shape(b, it.term, elty))
            ns, rs = self.assign(gen.target, it, b)
            raises.extend(rs)
            cur = ns
            for cond in gen.ifs:
                nxt = []
                for b1 in cur:
                    heap_before = (dict(b1.heap), b1.L, b1.DK, b1.DV)
                    vn, vr = self.ev(cond, b1)
                    raises.extend(vr)
                    for b2, _v in vn:
                        if not (b2.L.eq(heap_before[1]) and b2.DK.eq(heap_before[2]) and b2.DV.eq(heap_before[3]) and
                                all(f in b2.heap and b2.heap[f].eq(a) for f, a in heap_before[0].items())):
                            raise Unsupported('comprehension filter modifies the heap (line %d)' % n.lineno)
                        nxt.append(b2)
                cur = nxt
        R = fresh('fcomp', SeqVal)
        res = new_list_from_seq(c, R, elty)
        c.assume(z3.Length(R) <= z3.Length(seq))
        qi = fresh('q_fi', IntS)
        c.assume(z3.ForAll([qi], Implies(And(0 <= qi, qi < z3.Length(R)),
                                         And(z3.Contains(seq, z3.Unit(R[qi])), shape(c, R[qi], elty))), patterns=[R[qi]]))
        nn = fresh('next', IntS)
        c.assume(nn >= c.nxt)
        c.nxt = nn
        return (c, res)

    def _filter_items(self, n, gen, c, items, raises):
            out = []
            cur = [(c, [])]
            for it in items:
                nxt = []
                for c2, vals in cur:
                    ns, rs = self.assign(gen.target, it, c2)
                    raises.extend(rs)
                    for c3 in ns:
                        conds = [(c3, TRUE)]
                        for cond in gen.ifs:
                            nc = []
                            for c4, acc in conds:
                                vn, vr = self.ev(cond, c4)
                                raises.extend(vr)
                                for c5, v in vn:
                                    nc.append((c5, And(acc, truthy(c5, v))))
                            conds = nc
                        for c4, acc in conds:
                            yes, no = self.fork(c4, acc, None)
                            if no is not None:
                                nxt.append((no, vals))
                            if yes is not None:
                                vn, vr = self.ev(n.elt, yes)
                                raises.extend(vr)
                                nxt.extend((c5, vals + [v]) for c5, v in vn)
                cur = nxt
            out.extend((c2, new_list(c2, vals)) for c2, vals in cur)
            return out

    # ------------------------------------------------------------------ operators
    def ex_UnaryOp(self, n, st):
        normals, raises = self.ev(n.operand, st)
        out = []
        for c, v in normals:
            if isinstance(n.op, ast.Not):
                out.append((c, SV(VBool(Not(truthy(c, v))), Ty.BOOL)))
            elif isinstance(n.op, ast.USub):
                if v.has_py and isinstance(v.py, int):
                    out.append((c, const_sv(-v.py)))
                    continue
                if not isinstance(v.ty, (Ty.TInt, Ty.TBool)):
                    raise Unsupported('unary minus on %r' % (v.ty,))
                out.append((c, SV(VInt(-int_of(v)), Ty.INT)))
            else:
                raise Unsupported('unary operator')
        return out, raises

    def ex_BoolOp(self, n, st):
        is_and = isinstance(n.op, ast.And)
        results, raises = [], []
        cur = [st]
        for idx, vn in enumerate(n.values):
            last = idx == len(n.values) - 1
            nxt = []
            for c in cur:
                ns, rs = self.ev(vn, c)
                raises.extend(rs)
                for c2, v in ns:
                    if last:
                        results.append((c2, v))
                        continue
                    t, f = self.fork(c2, truthy(c2, v), None)
                    go, stop = (t, f) if is_and else (f, t)
                    if stop is not None:
                        results.append((stop, v))
                    if go is not None:
                        nxt.append(go)
            cur = nxt
        return merge_states(results), raises

    def ex_IfExp(self, n, st):
        normals, raises = self.ev(n.test, st)
        out = []
        for c, v in normals:
            t, f = self.fork(c, truthy(c, v), None)
            if t is not None:
                ns, rs = self.ev(n.body, t)
                out.extend(ns)
                raises.extend(rs)
            if f is not None:
                ns, rs = self.ev(n.orelse, f)
                out.extend(ns)
                raises.extend(rs)
        return merge_states(out), raises

    def ex_BinOp(self, n, st):
        cur, raises = self.ev_many([n.left, n.right], st)
        out = []
        for c, (a, b) in cur:
            ns, rs = self.binop(c, n.op, a, b, n)
            out.extend(ns)
            raises.extend(rs)
        return out, raises

    def binop(self, st, op, a, b, node):
        ta, tb = Ty.strip_opt(a.ty), Ty.strip_opt(b.ty)
        num = (Ty.TInt, Ty.TBool)
        if isinstance(ta, num) and isinstance(tb, num) and a.has_py and b.has_py and \
                isinstance(op, (ast.Add, ast.Sub, ast.Mult)):
            r = {ast.Add: a.py + b.py, ast.Sub: a.py - b.py, ast.Mult: a.py * b.py}[type(op)]
            return [(st, const_sv(int(r)))], []
        if isinstance(ta, num) and isinstance(tb, num):
            x, y = int_of(a), int_of(b)
            if isinstance(op, ast.Add):
                return [(st, SV(VInt(x + y), Ty.INT))], []
            if isinstance(op, ast.Sub):
                return [(st, SV(VInt(x - y), Ty.INT))], []
            if isinstance(op, ast.Mult):
                return [(st, SV(VInt(x * y), Ty.INT))], []
            if isinstance(op, (ast.FloorDiv, ast.Mod)):
                ok, bad = self.fork(st, y != 0, None)
                rs = [self.raised(bad, 'builtins:ZeroDivisionError')] if bad is not None else []
                if ok is None:
                    return [], rs
                # Python floor semantics: q = floor(x / y); z3 div is Euclidean
                if isinstance(op, ast.FloorDiv):
                    fl = z3.If(y > 0, x / y, (-x) / (-y))
                    return [(ok, SV(VInt(fl), Ty.INT))], rs
                md = z3.If(y > 0, x % y, -((-x) % (-y)))
                return [(ok, SV(VInt(md), Ty.INT))], rs
            raise Unsupported('arithmetic operator %s' % op.__class__.__name__)
        if isinstance(op, ast.Add) and isinstance(ta, Ty.TStr) and isinstance(tb, Ty.TStr):
            if a.has_py and b.has_py:
                return [(st, const_sv(a.py + b.py))], []
            return [(st, SV(VStr(z3.Concat(str_of(a), str_of(b))), Ty.STR))], []
        if isinstance(op, ast.Add) and isinstance(ta, Ty.TList) and isinstance(tb, Ty.TList):
            seq = z3.Concat(sel_L(st, va(a.term)), sel_L(st, va(b.term)))
            return [(st, new_list_from_seq(st, seq, Ty.join(ta.t, tb.t)))], []
        if isinstance(op, ast.Mod) and isinstance(ta, Ty.TStr):
            return [(st, self.percent_format(st, a, b))], []
        if isinstance(ta, Ty.TInst) and not isinstance(a.ty, Ty.TOpt):
            dunder = {ast.Add: '__add__', ast.Sub: '__sub__'}.get(type(op))
            if dunder:
                q = '%s.%s' % (ta.cls, dunder)
                c = self.eng.contract_for(q, a)
                if c is not None:
                    return self.apply_contract(st, c, a, [b], {}, node)
        if isinstance(op, ast.Mult) and a.has_py and b.has_py:
            return [(st, const_sv(a.py * b.py))], []
        raise Unsupported('operator %s on %r and %r (line %d)' % (op.__class__.__name__, a.ty, b.ty, node.lineno))

    def percent_format(self, st, fmt, arg):
        """'..%s..' % x : exact for %s with str arguments, otherwise an unconstrained string (over-approximation)"""
        if fmt.has_py and arg.has_py and isinstance(arg.py, (str, int, tuple)):
            try:
                return const_sv(fmt.py % arg.py)
            except Exception:
                pass
        if fmt.has_py:
            import re as _re
            specs = _re.findall(r'%[sd%]', fmt.py)
            if _re.sub(r'%[sd%]', '', fmt.py).count('%') == 0:
                aty = Ty.strip_opt(arg.ty)
                if isinstance(aty, Ty.TTuple):
                    if arg.has_py is False and ('elems', tid(arg.term)) in st.notes:
                        args = st.notes[('elems', tid(arg.term))]
                    else:
                        args = [SV(sel_L(st, va(arg.term))[i], t) for i, t in enumerate(aty.ts)]
                elif isinstance(aty, Ty.TDict):
                    args = None
                else:
                    args = [arg]
                nspec = len([x for x in specs if x != '%%'])
                if args is not None and nspec == len(args):
                    parts, ai, ok = [], 0, True
                    for piece in _re.split(r'(%[sd%])', fmt.py):
                        if piece == '%%':
                            parts.append('%')
                        elif piece in ('%s', '%d'):
                            x = args[ai]
                            ai += 1
                            if x.has_py and isinstance(x.py, (str, int)) and not isinstance(x.py, bool):
                                parts.append(str(x.py))
                            elif piece == '%s' and isinstance(x.ty, Ty.TStr):
                                parts.append(str_of(x))
                            elif isinstance(x.ty, Ty.TInt):
                                i_ = vi(x.term)
                                parts.append(z3.If(i_ >= 0, z3.IntToStr(i_), z3.Concat(z3.StringVal('-'), z3.IntToStr(-i_))))
                            else:
                                ok = False
                                break
                        elif piece:
                            parts.append(piece)
                    if ok:
                        if all(isinstance(x, str) for x in parts):
                            return const_sv(''.join(parts))
                        zs = [z3.StringVal(x) if isinstance(x, str) else x for x in parts]
                        return SV(VStr(zs[0] if len(zs) == 1 else z3.Concat(*zs)), Ty.STR)
        return SV(VStr(fresh('fmt', StrS)), Ty.STR)

    def ex_JoinedStr(self, n, st):
        return [(st, SV(VStr(fresh('fstr', StrS)), Ty.STR))], []

    def ex_Compare(self, n, st):
        if len(n.ops) == 1:
            cur, raises = self.ev_many([n.left, n.comparators[0]], st)
            out = []
            for c, (a, b) in cur:
                ns, rs = self.compare(c, n.ops[0], a, b, n)
                out.extend(ns)
                raises.extend(rs)
            return out, raises
        # a < b < c  ==  (a < b) and (b < c), b evaluated once
        cur, raises = self.ev_many([n.left] + list(n.comparators), st)
        out = []
        for c, vals in cur:
            states = [(c, TRUE)]
            for i, op in enumerate(n.ops):
                nxt = []
                for c2, acc in states:
                    ns, rs = self.compare(c2, op, vals[i], vals[i + 1], n)
                    raises.extend(rs)
                    for c3, r in ns:
                        nxt.append((c3, And(acc, vb(r.term))))
                states = nxt
            for c2, acc in states:
                out.append((c2, SV(VBool(acc), Ty.BOOL)))
        return out, raises

    def compare(self, st, op, a, b, node):
        B = lambda z: SV(VBool(z), Ty.BOOL)
        if isinstance(op, (ast.Is, ast.IsNot)):
            eq = a.term == b.term
            return [(st, B(eq if isinstance(op, ast.Is) else Not(eq)))], []
        if isinstance(op, (ast.Eq, ast.NotEq)):
            eq = self.py_equal(st, a, b, node)
            return [(st, B(eq if isinstance(op, ast.Eq) else Not(eq)))], []
        if isinstance(op, (ast.In, ast.NotIn)):
            ns, rs = self.py_contains(st, b, a, node)
            if isinstance(op, ast.NotIn):
                ns = [(c, B(Not(vb(r.term)))) for c, r in ns]
            return ns, rs
        ta, tb = Ty.strip_opt(a.ty), Ty.strip_opt(b.ty)
        num = (Ty.TInt, Ty.TBool)
        if isinstance(a.ty, num) and isinstance(b.ty, num):
            x, y = int_of(a), int_of(b)
            r = {ast.Lt: x < y, ast.LtE: x <= y, ast.Gt: x > y, ast.GtE: x >= y}[type(op)]
            return [(st, B(r))], []
        if isinstance(a.ty, Ty.TInst) and isinstance(b.ty, Ty.TInst) and a.ty.cls == b.ty.cls == 'builtins:float':
            return [(st, B(fresh('fcmp', BoolS)))], []      # float ordering is not modelled: any outcome
        if isinstance(a.ty, Ty.TInst) and isinstance(b.ty, Ty.TInst) and a.ty.cls == b.ty.cls and a.ty.cls in ORDER_KEYS:
            key = GHOSTS[ORDER_KEYS[a.ty.cls]][0]
            x, y = key(a.term), key(b.term)
            r = fresh('cmp', BoolS)
            if isinstance(op, (ast.Lt, ast.LtE)):
                st.assume(And(Implies(x < y, r), Implies(r, x <= y)))
            else:
                st.assume(And(Implies(x > y, r), Implies(r, x >= y)))
            return [(st, B(r))], []
        return self.compare_dynamic(st, op, a, b, node)

    def compare_dynamic(self, st, op, a, b, node):
        """operands whose static type is a union / optional: decide by run-time shape; mixed kinds raise TypeError
        (Python 3 ordering), two ints compare as ints, two instances of an ordered class by its order key"""
        B = lambda z: SV(VBool(z), Ty.BOOL)
        allowed = (Ty.TUnion, Ty.TOpt, Ty.TInt, Ty.TBool, Ty.TInst, Ty.TNone, Ty.TStr)
        if not (isinstance(a.ty, allowed) and isinstance(b.ty, allowed)):
            raise Unsupported('ordering comparison between %r and %r (line %d)' % (a.ty, b.ty, node.lineno))
        out, raises = [], []
        ta, tb = a.term, b.term
        both_int = And(Or(is_int(ta), is_bool(ta)), Or(is_int(tb), is_bool(tb)))
        ci, rest = self.fork(st.copy(), both_int, None)
        if ci is not None:
            x = z3.If(is_bool(ta), z3.If(vb(ta), 1, 0), vi(ta))
            y = z3.If(is_bool(tb), z3.If(vb(tb), 1, 0), vi(tb))
            r = {ast.Lt: x < y, ast.LtE: x <= y, ast.Gt: x > y, ast.GtE: x >= y}[type(op)]
            out.append((ci, B(r)))
        if rest is not None:
            handled = FALSE
            for clsq, gname in sorted(ORDER_KEYS.items()):
                cid = front.cls_id(clsq)
                both = And(is_ref(ta), is_ref(tb), KIND(va(ta)) == K_INST, KIND(va(tb)) == K_INST,
                           CLS(va(ta)) == cid, CLS(va(tb)) == cid)
                co, rest2 = self.fork(rest.copy(), both, None)
                if co is not None:
                    key = GHOSTS[gname][0]
                    x, y = key(ta), key(tb)
                    r = fresh('cmp', BoolS)
                    if isinstance(op, (ast.Lt, ast.LtE)):
                        co.assume(And(Implies(x < y, r), Implies(r, x <= y)))
                    else:
                        co.assume(And(Implies(x > y, r), Implies(r, x >= y)))
                    out.append((co, B(r)))
                handled = Or(handled, both)
            both_str = And(is_str(ta), is_str(tb))
            cs, _ = self.fork(rest.copy(), both_str, None)
            if cs is not None:
                x, y = vs(ta), vs(tb)
                r = {ast.Lt: x < y, ast.LtE: x <= y, ast.Gt: y < x, ast.GtE: y <= x}[type(op)]
                out.append((cs, B(r)))
            handled = Or(handled, both_str)
            bad, _ = self.fork(rest, Not(handled), None)
            if bad is not None:
                raises.append(self.raised(bad, 'builtins:TypeError'))
        return out, raises

    def py_equal(self, st, a, b, node):
        ta, tb = Ty.strip_opt(a.ty), Ty.strip_opt(b.ty)
        if isinstance(ta, Ty.TList) and isinstance(tb, Ty.TList) and (is_prim(ta.t) or is_prim(tb.t)):
            # lists of primitive values compare element-wise
            both = And(is_ref(a.term), is_ref(b.term))
            return And(both, sel_L(st, va(a.term)) == sel_L(st, va(b.term))) if not (isinstance(a.ty, Ty.TOpt) or isinstance(b.ty, Ty.TOpt)) \
                else z3.If(both, sel_L(st, va(a.term)) == sel_L(st, va(b.term)), a.term == b.term)
        for x in (a, b):
            t = Ty.strip_opt(x.ty)
            if isinstance(t, (Ty.TList, Ty.TDict, Ty.TTuple, Ty.TSet)):
                other = b if x is a else a
                if isinstance(other.ty, Ty.TNone):
                    continue
                raise Unsupported('== on containers (line %d)' % node.lineno)
            if isinstance(t, Ty.TInst):
                c = front.cls_obj(t.cls)
                other = b if x is a else a
                if any('__eq__' in k.__dict__ for k in c.__mro__ if k is not object) and not isinstance(other.ty, Ty.TNone):
                    raise Unsupported('== on instances of %s which defines __eq__ (line %d)' % (t.cls, node.lineno))
        return a.term == b.term

    def py_contains(self, st, cont, x, node):
        B = lambda z: SV(VBool(z), Ty.BOOL)
        cont = dict_view(cont)
        ty = cont.ty
        if isinstance(ty, Ty.TOpt):
            nn, isn = self.fork(st, Not(is_none(cont.term)), None)
            out, raises = [], []
            if isn is not None:
                raises.append(self.raised(isn, 'builtins:TypeError'))
            if nn is not None:
                ns, rs = self.py_contains(nn, SV(cont.term, ty.t, cont.py, cont.has_py), x, node)
                out.extend(ns)
                raises.extend(rs)
            return out, raises
        if isinstance(ty, Ty.TNone):
            return [], [self.raised(st, 'builtins:TypeError')]
        if cont.has_py and isinstance(cont.py, (list, tuple, dict, set, frozenset)) and \
                all(isinstance(k, front.CONST_TYPES) for k in cont.py):
            return [(st, B(Or(*[x.term == lit(k) for k in cont.py])))], []
        if isinstance(ty, (Ty.TDict, Ty.TSet)):
            return [(st, B(st.DK[va(cont.term)][x.term]))], []
        if isinstance(ty, (Ty.TList, Ty.TTuple)):
            if not is_prim(elem_type(ty)) and not isinstance(elem_type(ty), Ty.TAny) and not is_prim(x.ty):
                raise Unsupported('`in` over a list of non-primitive values (line %d)' % node.lineno)
            return [(st, B(z3.Contains(sel_L(st, va(cont.term)), z3.Unit(x.term))))], []
        if isinstance(ty, Ty.TStr):
            if not isinstance(Ty.strip_opt(x.ty), Ty.TStr):
                raise Unsupported('`in` str with a non-str left operand')
            return [(st, B(z3.Contains(str_of(cont), str_of(x))))], []
        if isinstance(ty, Ty.TInst):
            owner, member = front.method_owner(ty.cls, '__contains__')
            if owner is not None:
                fq = '%s:%s' % (member.__module__, member.__qualname__)
                return self.call_function(st, SV(VNone, Ty.TFunc(fq, recv=cont)), [x], {}, node)
        raise Unsupported('`in` on %r (line %d)' % (ty, node.lineno))

    # ------------------------------------------------------------------ subscripts
    def ex_Subscript(self, n, st):
        bn0, br = self.ev(n.value, st)
        out, raises = [], list(br)
        bn = []
        for c, base in bn0:
            if isinstance(base.ty, Ty.TUnion):
                rest = c
                for t in base.ty.ts:
                    if rest is None:
                        break
                    yes, rest = self.fork(rest.copy(), shape(rest, base.term, t), None)
                    if yes is not None:
                        bn.append((yes, SV(base.term, t)))
            else:
                bn.append((c, base))
        for c, base in bn:
            if isinstance(base.ty, Ty.TNone):
                raises.append(self.raised(c, 'builtins:TypeError'))        # None is not subscriptable
                continue
            if isinstance(n.slice, ast.Slice):
                parts = [x for x in (n.slice.lower, n.slice.upper) if x is not None]
                if n.slice.step is not None:
                    raise Unsupported('slice step')
                kn, kr = self.ev_many(parts, c)
                raises.extend(kr)
                for c2, vals in kn:
                    it = iter(vals)
                    lo = next(it) if n.slice.lower is not None else None
                    hi = next(it) if n.slice.upper is not None else None
                    out.append((c2, self.get_slice(c2, base, lo, hi, n)))
                continue
            kn, kr = self.ev(n.slice, c)
            raises.extend(kr)
            for c2, key in kn:
                ns, rs = self.get_item(c2, base, key, n)
                out.extend(ns)
                raises.extend(rs)
        return out, raises

    def norm_index(self, idx, length):
        i = int_of(idx)
        if idx.has_py and isinstance(idx.py, int):
            return (length + idx.py) if idx.py < 0 else z3.IntVal(idx.py)
        return z3.If(i < 0, length + i, i)

    def get_slice(self, st, base, lo, hi, node):
        ty = Ty.strip_opt(base.ty)
        if isinstance(ty, (Ty.TStr, Ty.TBytes)):
            s = vs(base.term) if isinstance(ty, Ty.TStr) else vy(base.term)
            ln = z3.Length(s)
            l = self.clamp(lo, ln, 0)
            h = self.clamp(hi, ln, None)
            sub = z3.SubString(s, l, z3.If(h > l, h - l, 0))
            return SV(VStr(sub) if isinstance(ty, Ty.TStr) else VBytes(sub), ty)
        if isinstance(ty, Ty.TList):
            seq = sel_L(st, va(base.term))
            ln = z3.Length(seq)
            l = self.clamp(lo, ln, 0)
            h = self.clamp(hi, ln, None)
            return new_list_from_seq(st, z3.Extract(seq, l, z3.If(h > l, h - l, 0)), ty.t)
        raise Unsupported('slice of %r (line %d)' % (base.ty, node.lineno))

    def clamp(self, idx, ln, default):
        if idx is None or isinstance(idx.ty, Ty.TNone):
            return z3.IntVal(0) if default == 0 else ln
        i = int_of(idx)
        i = z3.If(i < 0, ln + i, i)
        return z3.If(i < 0, 0, z3.If(i > ln, ln, i))

    def get_item(self, st, base, key, node):
        base = dict_view(base)
        ty = base.ty
        if isinstance(ty, Ty.TAny):
            # unknown static type: a string key means a mapping, an integer key a list -- as an obligation
            a = va(base.term)
            kt = Ty.strip_opt(key.ty)
            if isinstance(kt, Ty.TStr):
                want, nty = K_DICT, Ty.TDict(Ty.ANY, Ty.ANY)
            elif isinstance(kt, (Ty.TInt, Ty.TBool)):
                want, nty = K_LIST, Ty.TList(Ty.ANY)
            else:
                raise Unsupported('subscript on Any with a key of static type %r (line %d)' % (key.ty, node.lineno))
            self.oblige(st, And(is_ref(base.term), KIND(a) == want), 'subscripted-value-kind@L%d' % node.lineno, 'pre-of-callee')
            st.assume(And(is_ref(base.term), KIND(a) == want, st.DSZ[a] >= 0))
            base = SV(base.term, nty)
            ty = nty
        if isinstance(ty, Ty.TOpt):
            nn, isn = self.fork(st, Not(is_none(base.term)), None)
            out, raises = [], []
            if isn is not None:
                raises.append(self.raised(isn, 'builtins:TypeError'))
            if nn is not None:
                ns, rs = self.get_item(nn, SV(base.term, ty.t, base.py, base.has_py), key, node)
                out.extend(ns)
                raises.extend(rs)
            return out, raises
        if isinstance(ty, Ty.TDict) and base.has_py and isinstance(base.py, dict) and key.has_py and \
                isinstance(key.py, front.CONST_TYPES):
            # constant table, constant key: decided statically
            if key.py in base.py:
                return [(st, self.lift_py(base.py[key.py], st))], []
            return [], [self.raised(st, 'builtins:KeyError', [key])]
        if isinstance(ty, Ty.TDict):
            a = va(base.term)
            has, no = self.fork(st, st.DK[a][key.term], None)
            out, raises = [], []
            if no is not None:
                raises.append(self.raised(no, 'builtins:KeyError', [key]))
            if has is not None:
                v = has.DV[a][key.term]
                has.assume(shape(has, v, ty.v, pre=in_pre(has.DV.eq(z3.Const('DV0', DVArr)), a)))
                sv = SV(v, ty.v)
                if base.has_py and key.has_py and isinstance(base.py, dict) and key.py in base.py and \
                        isinstance(base.py[key.py], front.CONST_TYPES):
                    sv = const_sv(base.py[key.py])
                out.append((has, sv))
            return out, raises
        if isinstance(ty, (Ty.TList, Ty.TTuple)):
            if not isinstance(Ty.strip_opt(key.ty), (Ty.TInt, Ty.TBool)):
                raise Unsupported('list index of static type %r (line %d)' % (key.ty, node.lineno))
            seq = sel_L(st, va(base.term))
            ln = z3.Length(seq)
            i = self.norm_index(key, ln)
            ok, bad = self.fork(st, And(0 <= i, i < ln), None)
            out, raises = [], []
            if bad is not None:
                raises.append(self.raised(bad, 'builtins:IndexError'))
            if ok is not None:
                if isinstance(ty, Ty.TTuple):
                    ety = ty.ts[key.py] if key.has_py and -len(ty.ts) <= key.py < len(ty.ts) else Ty.ANY
                else:
                    ety = ty.t
                v = seq[i]
                ok.assume(shape(ok, v, ety, pre=in_pre(ok.L.eq(z3.Const('L0', ListArr)), va(base.term))))
                out.append((ok, SV(v, ety)))
            return out, raises
        if isinstance(ty, Ty.TStr):
            s = vs(base.term)
            ln = z3.Length(s)
            i = self.norm_index(key, ln)
            ok, bad = self.fork(st, And(0 <= i, i < ln), None)
            out, raises = [], []
            if bad is not None:
                raises.append(self.raised(bad, 'builtins:IndexError'))
            if ok is not None:
                out.append((ok, SV(VStr(z3.SubString(s, i, 1)), Ty.STR)))
            return out, raises
        if isinstance(ty, Ty.TInst):
            from .state import class_seq, GHOSTS
            cs = class_seq(ty.cls)
            if cs and isinstance(key.ty, (Ty.TInt, Ty.TBool)):
                seq = GHOSTS[cs[0]][0](base.term)
                ln = z3.Length(seq)
                i = self.norm_index(key, ln)
                ok, bad = self.fork(st, And(0 <= i, i < ln), None)
                out, raises = [], []
                if bad is not None:
                    raises.append(self.raised(bad, 'builtins:IndexError'))
                if ok is not None:
                    ok.assume(shape(ok, seq[i], cs[1]))
                    out.append((ok, SV(seq[i], cs[1])))
                return out, raises
            owner, member = front.method_owner(ty.cls, '__getitem__')
            if owner is not None and hasattr(member, '__module__') and hasattr(member, '__qualname__'):
                fq = '%s:%s' % (member.__module__, member.__qualname__)
                return self.call_function(st, SV(VNone, Ty.TFunc(fq, recv=base)), [key], {}, node)
        raise Unsupported('subscript on %r (line %d)' % (ty, node.lineno))

    def set_item(self, st, base, key, v):
        base = dict_view(base)
        ty = Ty.strip_opt(base.ty)
        if isinstance(base.ty, Ty.TOpt):
            nn, isn = self.fork(st, Not(is_none(base.term)), None)
            raises = [self.raised(isn, 'builtins:TypeError')] if isn is not None else []
            if nn is None:
                return [], raises
            st = nn
        else:
            raises = []
        if isinstance(ty, Ty.TDict):
            a = va(base.term)
            if not compat(v.ty, ty.v):
                self.oblige(st, shape(st, v.term, ty.v), 'valuetype[dict-store]', 'fieldtype')
            nk = ('keys', tid(base.term))
            if nk in st.notes:
                if key.has_py and isinstance(key.py, front.CONST_TYPES):
                    if key.py not in st.notes[nk]:
                        st.notes[nk] = st.notes[nk] + [key.py]
                else:
                    st.notes.pop(nk)
            st.DSZ = z3.Store(st.DSZ, a, st.DSZ[a] + z3.If(st.DK[a][key.term], 0, 1))
            st.DK = z3.Store(st.DK, a, z3.Store(st.DK[a], key.term, TRUE))
            st.DV = z3.Store(st.DV, a, z3.Store(st.DV[a], key.term, v.term))
            return [st], raises
        if isinstance(ty, Ty.TList):
            seq = sel_L(st, va(base.term))
            ln = z3.Length(seq)
            i = self.norm_index(key, ln)
            ok, bad = self.fork(st, And(0 <= i, i < ln), None)
            if bad is not None:
                raises.append(self.raised(bad, 'builtins:IndexError'))
            if ok is None:
                return [], raises
            newseq = z3.Concat(z3.Extract(seq, 0, i), z3.Unit(v.term), z3.Extract(seq, i + 1, ln - i - 1))
            ok.L = z3.Store(ok.L, va(base.term), newseq)
            return [ok], raises
        raise Unsupported('item store on %r' % (base.ty,))

    def del_item(self, st, base, key):
        base = dict_view(base)
        ty = Ty.strip_opt(base.ty)
        if isinstance(ty, Ty.TDict) and base.has_py and isinstance(base.py, dict) and key.has_py and \
                isinstance(key.py, front.CONST_TYPES):
            # constant table, constant key: decided statically
            if key.py in base.py:
                return [(st, self.lift_py(base.py[key.py], st))], []
            return [], [self.raised(st, 'builtins:KeyError', [key])]
        if isinstance(ty, Ty.TDict):
            a = va(base.term)
            has, no = self.fork(st, st.DK[a][key.term], None)
            raises = [self.raised(no, 'builtins:KeyError', [key])] if no is not None else []
            if has is None:
                return [], raises
            nk = ('keys', tid(base.term))
            if nk in has.notes:
                if key.has_py and key.py in has.notes[nk]:
                    has.notes[nk] = [x for x in has.notes[nk] if x != key.py]
                else:
                    has.notes.pop(nk)
            has.DSZ = z3.Store(has.DSZ, a, has.DSZ[a] - 1)
            has.DK = z3.Store(has.DK, a, z3.Store(has.DK[a], key.term, FALSE))
            return [has], raises
        raise Unsupported('del item on %r' % (base.ty,))
