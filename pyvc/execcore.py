"""Symbolic executor, part 1: outcomes, statements, loops, try/except (DESIGN 2.4)."""
import ast
import time
import z3
from .sorts import *      # noqa
from . import types as Ty
from . import front
from .front import Unsupported
from .state import (SV, State, const_sv, truthy, shape, field_type, KIND, CLS, cls_in, new_list, new_dict,
                    new_exception, new_instance, alloc, elem_type, int_of, str_of, val_of)
from . import spec as SP
from .state import merge_states, sel_L, tid


class Outcome(object):
    __slots__ = ('kind', 'st', 'val', 'exc', 'site')

    def __init__(self, kind, st, val=None, exc=None, site=None):
        self.kind, self.st, self.val, self.exc, self.site = kind, st, val, exc, site


class Exc(object):
    """a raised exception: class (concrete qual, or symbolic id constrained to subclasses of `clsq`), the object"""
    def __init__(self, clsq, obj=None, cid=None, exact=True):
        self.clsq, self.obj, self.cid, self.exact = clsq, obj, cid, exact

    def cid_term(self):
        if self.cid is not None:
            return self.cid
        return z3.IntVal(front.cls_id(self.clsq))


class Obligation(object):
    def __init__(self, name, assumptions, goal, kind, info=None):
        self.name, self.assumptions, self.goal, self.kind, self.info = name, assumptions, goal, kind, info or {}


LOG_NAMES = ('logger', 'logging', 'log')


def is_logging_call(node, aliases=()):
    """statement-level calls on logger.* / logging.* / print are dropped (A-LOG); so are `alias = logger.method`
    assignments and statement-level calls through such a local alias"""
    if isinstance(node, ast.Expr) and isinstance(node.value, ast.Call):
        f = node.value.func
        if isinstance(f, ast.Name) and (f.id == 'print' or f.id in aliases):
            return True
        if isinstance(f, ast.Attribute) and isinstance(f.value, ast.Name) and f.value.id in LOG_NAMES:
            return True
    if isinstance(node, ast.Assign) and len(node.targets) == 1 and isinstance(node.targets[0], ast.Name) and \
            isinstance(node.value, ast.Attribute) and isinstance(node.value.value, ast.Name) and node.value.value.id in LOG_NAMES:
        return True
    return False


def log_aliases(fnode):
    """local names that are only ever bound to a logger method (`_log_info = logger.info`)"""
    cand, other = set(), set()
    for n in ast.walk(fnode):
        if isinstance(n, ast.Assign):
            for t in n.targets:
                if isinstance(t, ast.Name):
                    if len(n.targets) == 1 and isinstance(n.value, ast.Attribute) and isinstance(n.value.value, ast.Name) \
                            and n.value.value.id in LOG_NAMES:
                        cand.add(t.id)
                    else:
                        other.add(t.id)
    return cand - other


def assigned_names(nodes):
    out = set()
    for root in nodes:
        for n in ast.walk(root):
            if isinstance(n, ast.Name) and isinstance(n.ctx, (ast.Store, ast.Del)):
                out.add(n.id)
            elif isinstance(n, ast.ExceptHandler) and n.name:
                out.add(n.name)
    return out


class ExecCore(object):
    cur_line = 0
    """statement level; expression level and calls are mixed in by exec.py"""

    FEAS_TIMEOUT_MS = int(__import__('os').environ.get('PYVC_FEAS_MS', '250'))

    def __init__(self, engine, fi, contract):
        self.eng, self.fi, self.contract = engine, fi, contract
        self.modname = fi.modname
        self.obligations = []
        self.return_sites = {}
        self.raise_sites = {}
        self.loop_ordinals = {}
        self.call_ordinals = {}
        self.comp_ordinals = {}
        self.inlined = set()
        self.used_contracts = set()
        self.npaths = 0
        self.feas_checks = 0
        self._number_sites()

    # ------------------------------------------------------------------ site ordinals (not line numbers)
    def _number_sites(self):
        r = l = c = x = lit = 0
        for n in ast.walk(self.fi.node):
            pass
        nodes = sorted([n for n in ast.walk(self.fi.node) if hasattr(n, 'lineno')],
                       key=lambda n: (n.lineno, n.col_offset))
        for n in nodes:
            if isinstance(n, ast.Return):
                self.return_sites[id(n)] = r
                r += 1
            elif isinstance(n, (ast.Raise, ast.Assert)):
                self.raise_sites[id(n)] = x
                x += 1
            elif isinstance(n, ast.For) and isinstance(n.iter, (ast.Tuple, ast.List)):
                # a loop over a literal display is unrolled exactly; it takes no invariant and does not shift the
                # ordinals the contract's `loops` entries refer to
                lit += 1
                self.loop_ordinals[id(n)] = -lit
            elif isinstance(n, (ast.For, ast.While)):
                self.loop_ordinals[id(n)] = l
                l += 1
            elif isinstance(n, ast.Call):
                self.call_ordinals[id(n)] = c
                c += 1
        self.n_returns = r

    # ------------------------------------------------------------------ feasibility
    LAZY = __import__('os').environ.get('PYVC_FEAS', '') == 'lazy'

    def feasible(self, st):
        if self.LAZY or getattr(self.contract, 'lazy_feasibility', False):
            return True     # no pruning: infeasible paths only produce vacuously true obligations
        self.feas_checks += 1
        ms = getattr(self.contract, 'feas_ms', None) or self.FEAS_TIMEOUT_MS
        s = z3.Solver()
        s.set('timeout', ms)
        s.add(*st.pc)
        # the soft timeout is not honoured inside some sequence-solver loops: a watchdog interrupts the context
        import threading
        wd = threading.Timer(ms / 1000.0 * 4 + 1.0, z3.main_ctx().interrupt)
        wd.daemon = True
        wd.start()
        try:
            r = s.check()
        except z3.Z3Exception:
            r = z3.unknown
        finally:
            wd.cancel()
        return r != z3.unsat

    def fork(self, st, cond, label=None):
        """-> (state where cond, state where not cond), None when infeasible"""
        if not (z3.is_true(cond) or z3.is_false(cond)):
            c2 = z3.simplify(cond)
            if z3.is_true(c2) or z3.is_false(c2):
                cond = c2
        if z3.is_true(cond):
            return st, None
        if z3.is_false(cond):
            return None, st
        a = st.copy().assume(cond, 'f')
        b = st.assume(Not(cond), 'f')
        if label:
            a.trace.append(label + '=T')
            b.trace.append(label + '=F')
        fa, fb = self.feasible(a), self.feasible(b)
        return (a if fa else None), (b if fb else None)

    # ------------------------------------------------------------------ obligations
    def oblige(self, st, goal, name, kind, info=None):
        if z3.is_true(goal):
            self.obligations.append(Obligation(name, [], TRUE, kind, dict(info or {}, trivial=True)))
            return
        self.obligations.append(Obligation(name, list(st.pc), goal, kind, dict(info or {}, trace=list(st.trace))))

    # ------------------------------------------------------------------ blocks
    def exec_block(self, stmts, st):
        outs = []
        cur = [st]
        for s in stmts:
            nxt = []
            for c in cur:
                for o in self.exec_stmt(s, c):
                    if o.kind == 'normal':
                        nxt.append(o.st)
                    else:
                        outs.append(o)
            if len(nxt) > 1:
                nxt = [m for m, _ in merge_states([(c, None) for c in nxt])]
                from .state import NO_MERGE
                if NO_MERGE[0] and (len(nxt) > 192 or (NO_MERGE[1:] and time.time() > NO_MERGE[1])):
                    raise Unsupported('path budget of the path-by-path exploration exceeded')
            cur = nxt
            if not cur:
                break
        outs.extend(Outcome('normal', c) for c in cur)
        return outs

    def exec_stmt(self, s, st):
        if not hasattr(self, '_log_aliases'):
            self._log_aliases = log_aliases(self.fi.node)
        if is_logging_call(s, self._log_aliases):
            return [Outcome('normal', st)]
        m = getattr(self, 'st_' + s.__class__.__name__, None)
        if m is None:
            raise Unsupported('statement %s at line %d' % (s.__class__.__name__, s.lineno))
        return m(s, st)

    def raised(self, st, clsq, args=None, site=None):
        obj = new_exception(st, clsq, args)
        return Outcome('raise', st, exc=Exc(clsq, obj), site=site)

    # ------------------------------------------------------------------ simple statements
    def st_Pass(self, s, st):
        return [Outcome('normal', st)]

    def st_Expr(self, s, st):
        if isinstance(s.value, ast.Constant):
            return [Outcome('normal', st)]
        normals, raises = self.ev(s.value, st)
        return [Outcome('normal', n) for n, _ in normals] + raises

    def st_Return(self, s, st):
        site = 'return#%d' % self.return_sites[id(s)]
        if s.value is None:
            return [Outcome('return', st, const_sv(None), site=site)]
        normals, raises = self.ev(s.value, st)
        return [Outcome('return', n, v, site=site) for n, v in normals] + raises

    def st_Break(self, s, st):
        return [Outcome('break', st)]

    def st_Continue(self, s, st):
        return [Outcome('continue', st)]

    def st_Global(self, s, st):
        raise Unsupported('global statement')

    def st_Import(self, s, st):
        raise Unsupported('import inside a function')

    st_ImportFrom = st_Import

    def st_Assert(self, s, st):
        site = 'raise#%d' % self.raise_sites[id(s)]
        normals, raises = self.ev(s.test, st)
        outs = list(raises)
        for n, v in normals:
            ok, bad = self.fork(n, truthy(n, v), 'assert@%d' % self.raise_sites[id(s)])
            if ok is not None:
                outs.append(Outcome('normal', ok))
            if bad is not None:
                outs.append(self.raised(bad, 'builtins:AssertionError', site=site))
        return outs

    def st_Raise(self, s, st):
        site = 'raise#%d' % self.raise_sites[id(s)]
        if s.exc is None:
            if st.cur_exc is None:
                raise Unsupported('bare raise outside a handler')
            return [Outcome('raise', st, exc=st.cur_exc, site=site)]
        # raise X / raise X(args)
        node = s.exc
        outs = []
        if isinstance(node, ast.Call):
            fn_norm, fn_raises = self.ev(node.func, st)
            outs.extend(fn_raises)
            for n1, fv in fn_norm:
                argn, argr = self.ev_many(node.args, n1)
                outs.extend(argr)
                for n2, args in argn:
                    outs.extend(self._raise_class(n2, fv, args, site))
            return outs
        normals, raises = self.ev(node, st)
        outs.extend(raises)
        for n, v in normals:
            if isinstance(v.ty, Ty.TInst):
                outs.append(Outcome('raise', n, exc=Exc(v.ty.cls, v), site=site))
            else:
                outs.extend(self._raise_class(n, v, [], site))
        return outs

    def _raise_class(self, st, fv, args, site):
        """raise <class value>(args): class may be symbolic (e.g. taken from a table)"""
        if isinstance(fv.ty, Ty.TCls) and fv.ty.name:
            return [self.raised(st, fv.ty.name, args, site)]
        # symbolic class value: must be an exception class id; keep it symbolic
        cid = vc(fv.term)
        a = alloc(st, K_INST)
        st.assume(CLS(a) == cid)
        obj = SV(VRef(a), Ty.ANY)
        base = fv.ty.name if isinstance(fv.ty, Ty.TCls) and fv.ty.name else 'builtins:BaseException'
        return [Outcome('raise', st, exc=Exc(base, obj, cid=cid, exact=False), site=site)]

    def st_Delete(self, s, st):
        cur = [st]
        outs = []
        for tgt in s.targets:
            nxt = []
            for c in cur:
                if isinstance(tgt, ast.Subscript):
                    bn, br = self.ev(tgt.value, c)
                    outs.extend(br)
                    for c1, base in bn:
                        kn, kr = self.ev(tgt.slice, c1)
                        outs.extend(kr)
                        for c2, key in kn:
                            ns, rs = self.del_item(c2, base, key)
                            nxt.extend(ns)
                            outs.extend(rs)
                elif isinstance(tgt, ast.Name):
                    c.env.pop(tgt.id, None)
                    nxt.append(c)
                else:
                    raise Unsupported('del target')
            cur = nxt
        return outs + [Outcome('normal', c) for c in cur]

    def st_Assign(self, s, st):
        normals, raises = self.ev(s.value, st)
        outs = list(raises)
        for n, v in normals:
            cur = [n]
            for tgt in s.targets:
                nxt = []
                for c in cur:
                    ns, rs = self.assign(tgt, v, c)
                    nxt.extend(ns)
                    outs.extend(rs)
                cur = nxt
            outs.extend(Outcome('normal', c) for c in cur)
        return outs

    def st_AnnAssign(self, s, st):
        raise Unsupported('annotated assignment')

    def st_AugAssign(self, s, st):
        load = ast.copy_location(_as_load(s.target), s.target)
        if isinstance(s.op, ast.Add):
            # list += iterable mutates the list object in place (list.extend)
            ln, lr = self.ev(load, st.copy())
            if ln and all(isinstance(Ty.strip_opt(v.ty), Ty.TList) for _, v in ln):
                call = ast.Expr(value=ast.Call(func=ast.Attribute(value=load, attr='extend', ctx=ast.Load()),
                                               args=[s.value], keywords=[]))
                ast.copy_location(call, s)
                ast.fix_missing_locations(call)
                self.call_ordinals.setdefault(id(call.value), 9000 + len(self.call_ordinals))
                return self.st_Expr(call, st)
        expr = ast.copy_location(ast.BinOp(left=load, op=s.op, right=s.value), s)
        ast.fix_missing_locations(expr)
        normals, raises = self.ev(expr, st)
        outs = list(raises)
        for n, v in normals:
            ns, rs = self.assign(s.target, v, n)
            outs.extend(rs)
            outs.extend(Outcome('normal', c) for c in ns)
        return outs

    def assign(self, tgt, v, st):
        """-> (normal states, raise outcomes)"""
        if isinstance(tgt, _ItemsTarget):
            snap_dv, vty, real = self._items_ctx
            val = SV(snap_dv[v.term], vty)
            st.assume(shape(st, val.term, vty))
            ns, rs = self.assign(real.elts[0], v, st)
            out, raises = [], list(rs)
            for c in ns:
                n2, r2 = self.assign(real.elts[1], val, c)
                out.extend(n2)
                raises.extend(r2)
            return out, raises
        if isinstance(tgt, ast.Name):
            lt = self.contract.local_types.get(tgt.id) if self.contract else None
            if lt is not None:
                from .execexpr import compat
                if not compat(v.ty, lt):
                    self.oblige(st, shape(st, v.term, lt), 'localtype[%s]' % tgt.id, 'fieldtype')
                v = SV(v.term, lt, v.py, v.has_py)
            st.env[tgt.id] = v
            return [st], []
        if isinstance(tgt, ast.Attribute):
            bn, br = self.ev(tgt.value, st)
            outs, normals = list(br), []
            for c, base in bn:
                ns, rs = self.set_field(c, base, tgt.attr, v)
                normals.extend(ns)
                outs.extend(rs)
            return normals, outs
        if isinstance(tgt, ast.Subscript):
            bn, br = self.ev(tgt.value, st)
            outs, normals = list(br), []
            for c, base in bn:
                kn, kr = self.ev(tgt.slice, c)
                outs.extend(kr)
                for c2, key in kn:
                    ns, rs = self.set_item(c2, base, key, v)
                    normals.extend(ns)
                    outs.extend(rs)
            return normals, outs
        if isinstance(tgt, (ast.Tuple, ast.List)):
            return self.unpack(tgt.elts, v, st)
        raise Unsupported('assignment target %s' % tgt.__class__.__name__)

    def unpack(self, elts, v, st):
        n = len(elts)
        ty = Ty.strip_opt(v.ty)
        if not isinstance(ty, (Ty.TTuple, Ty.TList)):
            raise Unsupported('unpacking a value of static type %r' % (v.ty,))
        seq = sel_L(st, va(v.term))
        outs = []
        if isinstance(ty, Ty.TTuple):
            if len(ty.ts) != n:
                return [], [self.raised(st, 'builtins:ValueError')]
            ok = st
        else:
            ok, bad = self.fork(st, z3.Length(seq) == n, 'unpack')
            if bad is not None:
                outs.append(self.raised(bad, 'builtins:ValueError'))
            if ok is None:
                return [], outs
        cur = [ok]
        for i, e in enumerate(elts):
            ety = ty.ts[i] if isinstance(ty, Ty.TTuple) else ty.t
            item = SV(seq[i], ety)
            if v.has_py and isinstance(v.py, (list, tuple)) and len(v.py) == n:
                item = self.lift_py(v.py[i], ok)      # constant data keeps its concrete view
            nxt = []
            for c in cur:
                c.assume(shape(c, item.term, ety))
                ns, rs = self.assign(e, item, c)
                nxt.extend(ns)
                outs.extend(rs)
            cur = nxt
        return cur, outs

    # ------------------------------------------------------------------ if / while / for
    def st_If(self, s, st):
        normals, raises = self.ev(s.test, st)
        outs = list(raises)
        for n, v in normals:
            label = 'if@L%d' % (s.lineno - self.fi.node.lineno)
            t, f = self.fork(n, truthy(n, v), label)
            if t is not None:
                outs.extend(self.exec_block(s.body, t))
            if f is not None:
                outs.extend(self.exec_block(s.orelse, f) if s.orelse else [Outcome('normal', f)])
        return outs

    def loop_spec(self, node):
        k = self.loop_ordinals[id(node)]
        spec = (self.contract.loops or {}).get(k) if self.contract else None
        return k, spec

    def st_For(self, s, st):
        k, lspec = self.loop_spec(s)
        it = s.iter
        # `for k, v in d.items()` / `for k, v in list(d.items())`: iterate the keys of a snapshot of d, v = snapshot[k]
        inner = it
        if isinstance(inner, ast.Call) and isinstance(inner.func, ast.Name) and inner.func.id == 'list' and len(inner.args) == 1:
            inner = inner.args[0]
        if isinstance(inner, ast.Call) and isinstance(inner.func, ast.Attribute) and inner.func.attr == 'items' and \
                not inner.args and isinstance(s.target, ast.Tuple) and len(s.target.elts) == 2:
            normals, raises = self.ev(inner.func.value, st)
            outs = list(raises)
            for n, dv in normals:
                dty = Ty.strip_opt(dv.ty)
                if self.dictlike(dty) and not (dv.has_py and isinstance(dv.py, dict)):
                    outs.extend(self.for_loop(s, n, dv, k, lspec, items=True))
                else:
                    n2, r2 = self.ev(s.iter, n)
                    outs.extend(r2)
                    for n3, itv in n2:
                        outs.extend(self.for_loop(s, n3, itv, k, lspec))
            return outs
        if isinstance(it, ast.Call) and isinstance(it.func, ast.Name) and it.func.id == 'enumerate' and 1 <= len(it.args) <= 2 \
                and not it.keywords and isinstance(s.target, ast.Tuple) and len(s.target.elts) == 2 \
                and front.resolve_global(self.modname, 'enumerate')[0] != 'missing' and 'enumerate' not in self.local_names:
            start = 0
            if len(it.args) == 2:
                if not (isinstance(it.args[1], ast.Constant) and isinstance(it.args[1].value, int)):
                    raise Unsupported('enumerate with a non-constant start')
                start = it.args[1].value
            normals, raises = self.ev(it.args[0], st)
            outs = list(raises)
            for n, itv in normals:
                outs.extend(self.for_loop(_EnumFor(s, start), n, itv, k, lspec))
            return outs
        normals, raises = self.ev(s.iter, st)
        outs = list(raises)
        for n, itv in normals:
            outs.extend(self.for_loop(s, n, itv, k, lspec))
        return outs

    def dictlike(self, ty):
        if isinstance(ty, Ty.TDict):
            return True
        if isinstance(ty, Ty.TInst):
            try:
                return issubclass(front.cls_obj(ty.cls), dict)
            except Exception:
                return False
        return False

    def iter_view(self, st, itv):
        """-> ('const', [SV...]) | ('seq', z3 Seq term, elem type, extra assumptions)"""
        if itv.has_py and isinstance(itv.py, (list, tuple)):
            return ('const', [self.lift_py(x, st) for x in itv.py])
        if itv.has_py and isinstance(itv.py, (list, tuple)) and itv.ty is not None and getattr(itv, 'py', None) is not None \
                and self.is_module_const(itv):
            return ('const', [self.lift_py(x, st) for x in itv.py])
        known = st.notes.get(('elems', tid(itv.term)))
        if known is not None and isinstance(Ty.strip_opt(itv.ty), (Ty.TList, Ty.TTuple)) and not isinstance(itv.ty, Ty.TOpt):
            return ('const', list(known))       # a list / tuple display built in this function: its elements are known
        ty = Ty.strip_opt(itv.ty)
        if isinstance(ty, Ty.TAny):
            # unknown static type: it is an obligation that only lists reach this loop
            a = va(itv.term)
            self.oblige(st, And(is_ref(itv.term), KIND(a) == K_LIST), 'iterable-is-a-list@L%d' % (self.cur_line or 0), 'pre-of-callee')
            st.assume(And(is_ref(itv.term), KIND(a) == K_LIST))
            ty = Ty.TList(Ty.ANY)
        if isinstance(ty, (Ty.TList, Ty.TTuple)):
            if isinstance(ty, Ty.TTuple):
                return ('const', [SV(sel_L(st, va(itv.term))[i], t) for i, t in enumerate(ty.ts)])
            return ('seq', sel_L(st, va(itv.term)), ty.t, [])
        if isinstance(ty, Ty.TInst):
            from .state import class_seq, GHOSTS
            cs = class_seq(ty.cls)
            if cs:
                return ('seq', GHOSTS[cs[0]][0](itv.term), cs[1], [])
        if isinstance(ty, (Ty.TDict, Ty.TSet)):
            a = va(itv.term)
            ks = fresh('keys', SeqVal)
            i, j = z3.Ints('ki kj')
            kq = z3.Const('kq', Val)
            if SP.BOUND[0] is not None:
                K = SP.BOUND[0]
                ax = [z3.Length(ks) == st.DSZ[a], z3.Length(ks) <= K]
                ax += [Implies(z3.Length(ks) > x, st.DK[a][ks[x]]) for x in range(K)]
                ax += [Implies(z3.Length(ks) > y, ks[x] != ks[y]) for x in range(K) for y in range(x + 1, K)]
                ax.append(z3.ForAll([kq], Implies(st.DK[a][kq], Or(*[And(z3.Length(ks) > x, ks[x] == kq) for x in range(K)]))))
            else:
                ax = [z3.Length(ks) == st.DSZ[a],
                      z3.ForAll([i], Implies(And(0 <= i, i < z3.Length(ks)), st.DK[a][ks[i]]), patterns=[ks[i]]),
                      z3.ForAll([i, j], Implies(And(0 <= i, i < j, j < z3.Length(ks)), ks[i] != ks[j])),
                      z3.ForAll([kq], Implies(st.DK[a][kq], z3.Contains(ks, z3.Unit(kq))))]
                # the same fact with an explicit position (Skolem function): every key sits at some index of the snapshot
                pos = z3.Function(str(fresh('keypos', IntS)), Val, IntS)
                ax.append(z3.ForAll([kq], Implies(st.DK[a][kq], And(0 <= pos(kq), pos(kq) < z3.Length(ks), ks[pos(kq)] == kq)),
                                    patterns=[st.DK[a][kq]]))
            return ('seq', ks, ty.k if isinstance(ty, Ty.TDict) else ty.t, ax)
        if isinstance(ty, Ty.TStr):
            raise Unsupported('iteration over the characters of a symbolic string')
        raise Unsupported('iteration over a value of static type %r' % (itv.ty,))

    def is_module_const(self, sv):
        return getattr(sv, 'has_py', False)

    def for_loop(self, s, st, itv, k, lspec, items=False):
        if items:
            # snapshot of the mapping at loop entry: keys are iterated, the value is read from the snapshot
            snap_dv = st.DV[va(itv.term)]
            vty = itv.ty.v if isinstance(Ty.strip_opt(itv.ty), Ty.TDict) else Ty.ANY
            kty = itv.ty.k if isinstance(Ty.strip_opt(itv.ty), Ty.TDict) else Ty.ANY
            view = self.iter_view(st, SV(itv.term, Ty.TDict(kty, vty)))
            self._items_ctx = (snap_dv, vty, s.target)
            s = _ItemsFor(s)
        view = view if items else self.iter_view(st, itv)
        if view[0] == 'const':
            return self.unrolled_for(s, st, view[1])
        if SP.BOUND[0] is not None:
            return self.bounded_for(s, st, view, k)
        if lspec is None:
            raise Unsupported('loop #%d over a symbolic sequence has no invariant in the contract' % k)
        _, seq, elty, axioms = view
        for ax in axioms:
            st.assume(ax)
        iname = lspec.get('index', 'i%d' % k)
        sname = lspec.get('seq', 'seq%d' % k)
        invs = self.contract.labelled(lspec.get('inv', []))
        outs = []
        # 1. establish
        st.env[sname] = SeqHolder(seq, elty)
        st.env[iname] = SV(VInt(z3.IntVal(0)), Ty.INT)
        for lab, text in invs:
            g = self.spec_bool(st, text)
            self.oblige(st, g, 'inv-init[%s]@loop#%d' % (lab, k), 'inv-init')
        # 2.-4. with the static types of the locals the body assigns widened to a fixpoint (a local that is None at entry and
        #       gets an object inside the loop is Opt(object) afterwards, not None)
        body_nodes = s.body
        widen = {}
        base_outs = list(outs)
        for _round in range(5):
            mark = len(self.obligations)
            outs = list(base_outs)
            ends = []
            h = st.copy()
            self.havoc_for_loop(h, body_nodes + [getattr(s, '_s', s).target], lspec, widen)
            h.env[sname] = SeqHolder(seq, elty)
            ivar = fresh(iname, IntS)
            h.env[iname] = SV(VInt(ivar), Ty.INT)
            h.assume(And(0 <= ivar, ivar <= z3.Length(seq)))
            for lab, text in invs:
                h.assume(self.spec_bool(h, text))
            # 3. one arbitrary iteration
            b = h.copy().assume(ivar < z3.Length(seq), 'f')
            b.trace.append('loop#%d:body' % k)
            if self.feasible(b):
                item = SV(seq[ivar], elty)
                b.assume(shape(b, item.term, elty))
                ns, rs = self.assign_loop_target(s, item, ivar, b)
                outs.extend(rs)
                for b1 in ns:
                    for o in self.exec_block(s.body, b1):
                        if o.kind in ('normal', 'continue'):
                            e = o.st
                            ends.append(e)
                            e.env[iname] = SV(VInt(ivar + 1), Ty.INT)
                            e.env[sname] = SeqHolder(seq, elty)
                            for lab, text in invs:
                                self.oblige(e, self.spec_bool(e, text), 'inv-keep[%s]@loop#%d' % (lab, k), 'inv-keep')
                            if lspec.get('modifies') is not None:
                                self.loop_frame_obligations(h, e, lspec['modifies'], k)
                            if lspec.get('list_unchanged', True) and isinstance(Ty.strip_opt(itv.ty), Ty.TList):
                                self.oblige(e, sel_L(e, va(itv.term)) == seq, 'inv-keep[iterated-list-unchanged]@loop#%d' % k,
                                            'inv-keep')
                        elif o.kind == 'break':
                            o.st.env.pop(iname, None)
                            outs.append(Outcome('normal', o.st))
                        else:
                            outs.append(o)
            more = self.widen_loop_types(h, ends, body_nodes + [getattr(s, '_s', s).target], widen)
            if not more:
                break
            widen.update(more)
            del self.obligations[mark:]
        # 4. exit by exhaustion
        x = h.copy().assume(ivar == z3.Length(seq), 'f')
        x.trace.append('loop#%d:done' % k)
        if self.feasible(x):
            if s.orelse:
                outs.extend(self.exec_block(s.orelse, x))
            else:
                outs.append(Outcome('normal', x))
        return outs

    def widen_loop_types(self, head, ends, nodes, widen):
        """-> {local: wider static type} when some iteration end gives a local a type its loop-head type does not cover"""
        more = {}
        for nm in assigned_names(nodes):
            if self.contract and nm in self.contract.local_types:
                continue
            hv = head.env.get(nm)
            hty = hv.ty if isinstance(hv, SV) else None
            j = hty
            for e in ends:
                ev = e.env.get(nm)
                if isinstance(ev, SV):
                    j = Ty.join(j, ev.ty) if j is not None else ev.ty
            if j is not None and hty is not None and j != hty and not compat_types(j, hty):
                more[nm] = j
            elif hty is None and j is not None and nm not in widen:
                pass        # first bound inside the loop: not live at the head
        return more

    def bounded_for(self, s, st, view, k):
        """refutation mode: the loop is unrolled K times (sequence length <= K is a recorded side constraint), so
        counter-models are real executions and no invariant is involved"""
        K = SP.BOUND[0]
        _, seq, elty, axioms = view
        for ax in axioms:
            st.assume(ax)
        st.assume(z3.Length(seq) <= K)
        outs = []
        cur = [st]
        done = []
        for i in range(K + 1):
            nxt = []
            for c in cur:
                more, stop = self.fork(c, z3.Length(seq) > i, 'loop#%d[%d]' % (k, i))
                if stop is not None:
                    done.append(stop)
                if more is None or i == K:
                    continue
                item = SV(seq[i], elty)
                more.assume(shape(more, item.term, elty))
                ns, rs = self.assign_loop_target(s, item, i, more)
                outs.extend(rs)
                for c1 in ns:
                    for o in self.exec_block(s.body, c1):
                        if o.kind in ('normal', 'continue'):
                            nxt.append(o.st)
                        elif o.kind == 'break':
                            outs.append(Outcome('normal', o.st))
                        else:
                            outs.append(o)
            cur = nxt
        for c in done:
            if s.orelse:
                outs.extend(self.exec_block(s.orelse, c))
            else:
                outs.append(Outcome('normal', c))
        return outs

    def bounded_while(self, s, st, k):
        K = SP.BOUND[0]
        outs = []
        cur = [st]
        for i in range(K + 1):
            nxt = []
            for c in cur:
                normals, raises = self.ev(s.test, c)
                outs.extend(raises)
                for n, v in normals:
                    t, f = self.fork(n, truthy(n, v), 'while#%d[%d]' % (k, i))
                    if f is not None:
                        outs.extend(self.exec_block(s.orelse, f) if s.orelse else [Outcome('normal', f)])
                    if t is not None and i < K:
                        for o in self.exec_block(s.body, t):
                            if o.kind in ('normal', 'continue'):
                                nxt.append(o.st)
                            elif o.kind == 'break':
                                outs.append(Outcome('normal', o.st))
                            else:
                                outs.append(o)
            cur = nxt
        return outs

    def assign_loop_target(self, s, item, pos, st):
        """bind the loop target(s) for one iteration; pos is the 0-based position (int or z3 Int term)"""
        ns, rs = self.assign(s.target, item, st)
        if hasattr(s, '_idx_target'):
            out = []
            for c in ns:
                idx = SV(VInt(z3.IntVal(pos) + s._start if isinstance(pos, int) else pos + s._start), Ty.INT)
                n2, r2 = self.assign(s._idx_target, idx, c)
                out.extend(n2)
                rs = rs + r2
            ns = out
        return ns, rs

    def unrolled_for(self, s, st, items):
        """a loop over a constant sequence is unrolled exactly (complete, not a bound)"""
        outs = []
        cur = [st]
        for pos, it in enumerate(items):
            nxt = []
            for c in cur:
                ns, rs = self.assign_loop_target(s, it, pos, c)
                outs.extend(rs)
                for c1 in ns:
                    for o in self.exec_block(s.body, c1):
                        if o.kind in ('normal', 'continue'):
                            nxt.append(o.st)
                        elif o.kind == 'break':
                            outs.append(Outcome('normal', o.st))
                        else:
                            outs.append(o)
            cur = nxt
            if len(cur) > 4000:
                raise Unsupported('path explosion in an unrolled loop')
        for c in cur:
            if s.orelse:
                outs.extend(self.exec_block(s.orelse, c))
            else:
                outs.append(Outcome('normal', c))
        return outs

    def havoc_for_loop(self, st, nodes, lspec, widen=None):
        names = assigned_names(nodes)
        for nm in sorted(names):
            old = st.env.get(nm)
            lt = self.contract.local_types.get(nm) if self.contract else None
            # the static type of a local after the loop is the join of its type at entry and of what the body assigns
            # (found by the fixpoint in widen_loop_types); a type declared in the contract's local_types is an annotation
            ty = lt or (widen or {}).get(nm) or (old.ty if old is not None and not isinstance(old, SeqHolder) else None)
            if ty is None:
                st.env.pop(nm, None)
                continue
            if isinstance(old, SeqHolder):
                continue
            t = fresh(nm, Val)
            st.env[nm] = SV(t, ty)
            st.assume(shape(st, t, ty))
        fields, lists, dicts, allocs = self.written_heap(nodes)
        explicit = (lspec or {}).get('modifies')
        if explicit is not None:
            # targeted havoc; the frame of one iteration is an inv-keep obligation (see for_loop)
            self.targeted_havoc(st, explicit)
        else:
            for f in sorted(fields):
                st.heap[f] = fresh('H_' + f, FieldArr)
            if lists:
                st.L = fresh('L', ListArr)
            if dicts:
                st.DK = fresh('DK', DKArr)
                st.DV = fresh('DV', DVArr)
                st.DSZ = fresh('DSZ', IntArr)
        # allocations inside the body: the counter only grows
        nn = fresh('next', IntS)
        st.assume(nn >= st.nxt)
        st.nxt = nn

    def targeted_havoc(self, st, entries):
        from . import spec as SP
        from .state import val_of
        for m in entries:
            m = m.strip()
            sev = SP.SpecEval(st, st.env, self.modname, extra=self.let_values)
            if m.startswith('list('):
                a = va(val_of(sev.value(m[5:-1])))
                st.L = z3.Store(st.L, a, fresh('lst', SeqVal))
            elif m.startswith('dict('):
                a = va(val_of(sev.value(m[5:-1])))
                st.DK = z3.Store(st.DK, a, fresh('dk', KeySet))
                st.DV = z3.Store(st.DV, a, fresh('dv', KeyMap))
                nsz = fresh('dsz', IntS)
                st.assume(nsz >= 0)
                st.DSZ = z3.Store(st.DSZ, a, nsz)
            elif m.startswith('*.'):
                st.heap[m[2:]] = fresh('H_' + m[2:], FieldArr)
            else:
                objtext, f = m.rsplit('.', 1)
                a = va(val_of(sev.value(objtext)))
                st.heap[f] = z3.Store(st.field(f), a, fresh('h_' + f, Val))

    def loop_frame_obligations(self, head, end, entries, k):
        """with an explicit loop `modifies`: one iteration changes nothing else on objects allocated before it"""
        from . import spec as SP
        from .state import val_of
        sev = SP.SpecEval(head, head.env, self.modname, extra=self.let_values)
        lists, dicts, fields, anyf = [], [], {}, set()
        for m in entries:
            m = m.strip()
            if m.startswith('list('):
                lists.append(va(val_of(sev.value(m[5:-1]))))
            elif m.startswith('dict('):
                dicts.append(va(val_of(sev.value(m[5:-1]))))
            elif m.startswith('*.'):
                anyf.add(m[2:])
            else:
                objtext, f = m.rsplit('.', 1)
                fields.setdefault(f, []).append(va(val_of(sev.value(objtext))))
        a = z3.Int('fr_a')
        if not end.L.eq(head.L):
            g = z3.ForAll([a], Implies(And(0 <= a, a < head.nxt, *[a != x for x in lists]), end.L[a] == head.L[a]))
            self.oblige(end, g, 'inv-keep[frame:lists]@loop#%d' % k, 'inv-keep')
        if not (end.DK.eq(head.DK) and end.DV.eq(head.DV)):
            g = z3.ForAll([a], Implies(And(0 <= a, a < head.nxt, *[a != x for x in dicts]),
                                       And(end.DK[a] == head.DK[a], end.DV[a] == head.DV[a], end.DSZ[a] == head.DSZ[a])))
            self.oblige(end, g, 'inv-keep[frame:dicts]@loop#%d' % k, 'inv-keep')
        for f, arr in sorted(end.heap.items()):
            if f in anyf or f == 'args':
                continue
            base = head.heap.get(f)
            if base is None or arr.eq(base):
                if base is None and f in end.heap and not end.heap[f].eq(z3.Const('H0_' + f, FieldArr)):
                    base = z3.Const('H0_' + f, FieldArr)
                else:
                    continue
            g = z3.ForAll([a], Implies(And(0 <= a, a < head.nxt, *[a != x for x in fields.get(f, [])]), arr[a] == base[a]))
            self.oblige(end, g, 'inv-keep[frame:%s]@loop#%d' % (f, k), 'inv-keep')

    MUTATORS_LIST = {'append', 'extend', 'insert', 'remove', 'pop', 'sort', 'reverse', 'clear'}
    MUTATORS_DICT = {'update', 'pop', 'setdefault', 'clear', 'popitem', 'add', 'discard'}

    def written_heap(self, nodes):
        """syntactic over-approximation of what a loop body writes"""
        fields, lists, dicts, calls = set(), False, False, False
        for root in nodes:
            for n in ast.walk(root):
                if isinstance(n, ast.Attribute) and isinstance(n.ctx, (ast.Store, ast.Del)):
                    fields.add(n.attr)
                elif isinstance(n, ast.Subscript) and isinstance(n.ctx, (ast.Store, ast.Del)):
                    lists = dicts = True
                elif isinstance(n, ast.Call):
                    if is_logging_call(ast.Expr(value=n)):
                        continue
                    f = n.func
                    if isinstance(f, ast.Attribute) and f.attr in self.MUTATORS_LIST | self.MUTATORS_DICT:
                        lists = lists or f.attr in self.MUTATORS_LIST
                        dicts = dicts or f.attr in self.MUTATORS_DICT
                    eff = self.call_effects(n)
                    if eff is None:
                        continue
                    fs, l, d, allocs = eff
                    fields |= fs
                    lists = lists or l
                    dicts = dicts or d
                    calls = calls or allocs
        return fields, lists, dicts, calls

    def call_effects(self, call):
        """(fields, lists?, dicts?, allocates?) a call may write, from the callee's contract; None = pure builtin"""
        return self.eng.call_effects(self, call)

    def st_While(self, s, st):
        k, lspec = self.loop_spec(s)
        if SP.BOUND[0] is not None:
            return self.bounded_while(s, st, k)
        if lspec is None:
            raise Unsupported('while loop #%d has no invariant in the contract' % k)
        invs = self.contract.labelled(lspec.get('inv', []))
        outs = []
        for lab, text in invs:
            self.oblige(st, self.spec_bool(st, text), 'inv-init[%s]@loop#%d' % (lab, k), 'inv-init')
        widen = {}
        base_outs = list(outs)
        for _round in range(5):
            mark = len(self.obligations)
            outs = list(base_outs)
            ends = []
            h = st.copy()
            self.havoc_for_loop(h, s.body + [s.test], lspec, widen)
            for lab, text in invs:
                h.assume(self.spec_bool(h, text))
            normals, raises = self.ev(s.test, h)
            outs.extend(raises)
            for n, v in normals:
                t, f = self.fork(n, truthy(n, v), 'while#%d' % k)
                if t is not None:
                    for o in self.exec_block(s.body, t):
                        if o.kind in ('normal', 'continue'):
                            ends.append(o.st)
                            for lab, text in invs:
                                self.oblige(o.st, self.spec_bool(o.st, text), 'inv-keep[%s]@loop#%d' % (lab, k), 'inv-keep')
                            if lspec.get('modifies') is not None:
                                self.loop_frame_obligations(h, o.st, lspec['modifies'], k)
                        elif o.kind == 'break':
                            outs.append(Outcome('normal', o.st))
                        else:
                            outs.append(o)
                if f is not None:
                    outs.extend(self.exec_block(s.orelse, f) if s.orelse else [Outcome('normal', f)])
            more = self.widen_loop_types(h, ends, s.body + [s.test], widen)
            if not more:
                break
            widen.update(more)
            del self.obligations[mark:]
        return outs

    # ------------------------------------------------------------------ try / with
    def handler_match(self, st, exc, htype_node):
        """z3 condition under which handler type matches the raised exception; None type = bare except"""
        if htype_node is None:
            return TRUE
        names = htype_node.elts if isinstance(htype_node, ast.Tuple) else [htype_node]
        conds = []
        for nm in names:
            q = self.resolve_class_node(nm)
            if exc.cid is None:
                conds.append(z3.BoolVal(front.is_subclass(exc.clsq, q)))
            elif q == 'builtins:BaseException':
                conds.append(TRUE)
            elif q == 'builtins:Exception':
                # every exception class except the three that derive from BaseException directly (the class of a symbolic
                # exception is not restricted to the registry: a callee that may raise "anything" may raise a library's own class)
                special = [front.cls_id('builtins:' + n) for n in ('KeyboardInterrupt', 'SystemExit', 'GeneratorExit')]
                conds.append(Not(Or(*[exc.cid == i for i in special])))
            else:
                conds.append(Or(*[exc.cid == i for i in front.subclass_ids(q)]))
        return Or(*conds)

    def resolve_class_node(self, node):
        if isinstance(node, ast.Name):
            kind, payload = front.resolve_global(self.modname, node.id)
            if kind == 'class':
                return payload
        if isinstance(node, ast.Attribute) and isinstance(node.value, ast.Name):
            kind, payload = front.resolve_global(self.modname, node.value.id)
            if kind == 'module':
                c = getattr(front.module_obj(payload), node.attr, None)
                if isinstance(c, type):
                    return front.cls_qual(c)
        raise Unsupported('cannot resolve class expression %s' % ast.unparse(node))

    def st_Try(self, s, st):
        outs = []
        after_body = []
        for o in self.exec_block(s.body, st):
            if o.kind == 'raise':
                after_body.extend(self.dispatch_handlers(s, o))
            elif o.kind == 'normal' and s.orelse:
                after_body.extend(self.exec_block(s.orelse, o.st))
            else:
                after_body.append(o)
        if not s.finalbody:
            return after_body
        for o in after_body:
            for fo in self.exec_block(s.finalbody, o.st):
                if fo.kind == 'normal':
                    outs.append(Outcome(o.kind, fo.st, o.val, o.exc, o.site))
                else:
                    outs.append(fo)     # finally overrides
        return outs

    def dispatch_handlers(self, s, o):
        outs = []
        cur = o.st
        exc = o.exc
        for h in s.handlers:
            cond = self.handler_match(cur, exc, h.type)
            m, nm = self.fork(cur, cond, 'except@L%d' % (h.lineno - self.fi.node.lineno))
            if m is not None:
                saved = m.cur_exc
                m.cur_exc = exc
                if h.name:
                    eo = exc.obj if exc.obj is not None else SV(fresh('exc', Val), Ty.ANY)
                    if isinstance(eo.ty, Ty.TAny):
                        eo = SV(eo.term, Ty.TInst('builtins:BaseException'))
                    m.env[h.name] = eo
                for ho in self.exec_block(h.body, m):
                    ho.st.cur_exc = saved
                    if h.name:
                        ho.st.env.pop(h.name, None)
                    outs.append(ho)
            if nm is None:
                return outs
            cur = nm
        outs.append(Outcome('raise', cur, exc=exc, site=o.site))
        return outs

    def st_With(self, s, st):
        """with E as x: body  ==  x = E; body   (A-PY: __enter__ returns the manager, __exit__ has no effect on the
        modelled state and does not swallow exceptions -- true of the file objects used in the package)"""
        cur = [st]
        outs = []
        for item in s.items:
            nxt = []
            for c in cur:
                normals, raises = self.ev(item.context_expr, c)
                outs.extend(raises)
                for n, v in normals:
                    if item.optional_vars is not None:
                        ns, rs = self.assign(item.optional_vars, v, n)
                        outs.extend(rs)
                        nxt.extend(ns)
                    else:
                        nxt.append(n)
            cur = nxt
        for c in cur:
            outs.extend(self.exec_block(s.body, c))
        return outs

    def st_FunctionDef(self, s, st):
        # nested helper: bound as a local function value, verified/inlined on call
        st.env[s.name] = SV(VNone, Ty.TFunc(self.fi.qual + '.' + s.name))
        self.eng.register_nested(self.fi, s, st)
        return [Outcome('normal', st)]

    # ------------------------------------------------------------------ spec access
    def spec_env(self, st):
        return st.env

    def spec_bool(self, st, text, old=None, result=None):
        ev = SP.SpecEval(st, st.env, self.modname, old=old or self.old_state, result=result)
        ev.extra.update(self.let_values)
        return ev.bool(text)


class _ItemsTarget(ast.AST):
    _fields = ()


class _ItemsFor(object):
    """view of a `for k, v in d.items()` statement whose target is bound from (key, snapshot[key])"""
    def __init__(self, s):
        self._s = s
        self.target = _ItemsTarget()
        self.body, self.orelse = s.body, s.orelse

    def __getattr__(self, name):
        return getattr(self._s, name)


def compat_types(a, b):
    """is static type a already covered by b?"""
    if a == b or isinstance(b, Ty.TAny):
        return True
    if isinstance(b, Ty.TOpt):
        return isinstance(a, Ty.TNone) or compat_types(a, b.t)
    return False


class _EnumFor(object):
    """view of `for i, x in enumerate(seq[, start])`: the loop runs over seq, the first target gets start + position"""
    def __init__(self, s, start):
        self._s = s
        self.target = s.target.elts[1]
        self._idx_target, self._start = s.target.elts[0], start
        self.body, self.orelse = s.body, s.orelse

    def __getattr__(self, name):
        return getattr(self._s, name)


class SeqHolder(object):
    """a raw z3 sequence bound to a spec-visible name (snapshot of an iterated sequence)"""
    def __init__(self, seq, elty=Ty.ANY):
        self.seq, self.elty = seq, elty


def _as_load(t):
    import copy
    n = copy.deepcopy(t)
    for x in ast.walk(n):
        if hasattr(x, 'ctx'):
            x.ctx = ast.Load()
    return n
