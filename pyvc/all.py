"""developer tool: verify every non-trusted, non-inline contract that has a function in the tree"""
import sys, time
from pyvc import engine, solve, spec as SP
import contracts  # noqa

def main():
    eng = engine.Engine()
    only = [a for a in sys.argv[1:] if not a.startswith('-')]
    tot = 0
    for q, c in sorted(SP.CONTRACTS.items()):
        if c.trusted or c.inline or (only and not any(o in q for o in only)):
            continue
        if not q.startswith('saml2_tophat'):
            continue
        t0 = time.time()
        r = eng.verify_function(q)
        if r.error:
            print('%-75s ERROR %s' % (q, r.error[:120]))
            continue
        for w in getattr(r, 'warnings', []):
            print('   WARNING', w)
        res = solve.discharge(r.obligations, 'quick')
        bad = sorted(set(o.name.split('/', 1)[1] + ':' + x['verdict'] for o, x in zip(r.obligations, res) if x['verdict'] != 'unsat'))
        be = sorted(set(str(x['backend']) for x in res))
        print('%-75s %3d obl %5.1fs %s %s' % (q, len(r.obligations), time.time() - t0, 'OK' if not bad else 'OPEN ' + ' '.join(bad)[:200], be if bad else ''))
main()
