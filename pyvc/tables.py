"""Finite-table obligations (DESIGN 2.12): ground facts about the generated tables of the current tree,
decided by complete enumeration.  Each function returns a list of {'name', 'ok', 'cases', 'witness'}."""
from . import front


def _result(name, bad, cases):
    return {'name': name, 'ok': not bad, 'cases': cases, 'witness': bad[:5]}


def table_statuscodes():
    """C06: STATUSCODE2EXCEPTION maps exactly the standard second-level status URIs, each to the StatusError subclass
    named after the URI's last component (documented naming), and to nothing else"""
    samlp = front.module_obj('saml2_tophat.samlp')
    resp = front.module_obj('saml2_tophat.response')
    table = resp.STATUSCODE2EXCEPTION
    expected = {}
    for n in sorted(vars(samlp)):
        if n.startswith('STATUS_') and n not in ('STATUS_SUCCESS', 'STATUS_REQUESTER'):
            expected[getattr(samlp, n)] = ('Status' + getattr(samlp, n).rsplit(':', 1)[1]).lower()
    bad = []
    for uri, want in sorted(expected.items()):
        got = table.get(uri)
        if got is None:
            bad.append('no entry for %s' % uri)
        elif got.__name__.lower() != want or not issubclass(got, resp.StatusError):
            bad.append('%s -> %s (expected a StatusError subclass named like %s)' % (uri, got.__name__, want))
    for uri in sorted(table):
        if uri not in expected:
            bad.append('unexpected key %s' % uri)
    return [_result('table[STATUSCODE2EXCEPTION]', bad, len(expected) + len(table))]
