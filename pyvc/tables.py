"""Finite-table obligations (DESIGN 2.12): ground facts about the generated tables of the current tree,
decided by complete enumeration.  Each function returns a list of {'name', 'ok', 'cases', 'witness'}."""
from . import front


def _result(name, bad, cases):
    return {'name': name, 'ok': not bad, 'cases': cases, 'witness': bad[:5]}


def table_statuscodes():
    """C06: STATUSCODE2EXCEPTION maps exactly the standard second-level status URIs, each to the StatusError subclass
    named after the URI's last component (documented naming), and to nothing else"""
    samlp = front.module_obj('saml2_tophat.samlp')
    resp = front.module_obj('saml2_tophat.response')
    table = resp.STATUSCODE2EXCEPTION
    expected = {}
    for n in sorted(vars(samlp)):
        if n.startswith('STATUS_') and n not in ('STATUS_SUCCESS', 'STATUS_REQUESTER'):
            expected[getattr(samlp, n)] = ('Status' + getattr(samlp, n).rsplit(':', 1)[1]).lower()
    bad = []
    for uri, want in sorted(expected.items()):
        got = table.get(uri)
        if got is None:
            bad.append('no entry for %s' % uri)
        elif got.__name__.lower() != want or not issubclass(got, resp.StatusError):
            bad.append('%s -> %s (expected a StatusError subclass named like %s)' % (uri, got.__name__, want))
    for uri in sorted(table):
        if uri not in expected:
            bad.append('unexpected key %s' % uri)
    return [_result('table[STATUSCODE2EXCEPTION]', bad, len(expected) + len(table))]


# ------------------------------------------------------------------------------------------------ C11: call-site inventory
import ast as _ast
import os as _os

XML_PARSE_NAMES = {'fromstring', 'XML', 'parse', 'iterparse', 'XMLParser', 'XMLPullParser', 'parseString', 'parse_xml',
                   'fromstringlist', 'XMLID', 'make_parser', 'ParserCreate', 'XMLTreeBuilder', 'expatreader'}
HARDENED_PREFIX = ('defusedxml.',)
UNSAFE_PREFIX = ('xml.etree.', 'xml.dom.', 'xml.sax.', 'xml.parsers.', 'lxml.', 'xmlsec.', 'xml.')
# the one allow-listed site (DESIGN 4/C11): optional pyXMLSecurity backend, module not installed, cannot be examined
ALLOWED_SITES = {('saml2_tophat/sigver.py', 'xmlsec.parse_xml')}


def _module_files():
    root = _os.path.join(front.SRC, front.PKG)
    for dp, dn, fn in _os.walk(root):
        for f in sorted(fn):
            if f.endswith('.py'):
                yield _os.path.join(dp, f)


def _aliases(tree):
    al = {}
    for n in _ast.walk(tree):
        if isinstance(n, _ast.Import):
            for a in n.names:
                al[a.asname or a.name.split('.')[0]] = a.name if a.asname else a.name.split('.')[0]
        elif isinstance(n, _ast.ImportFrom) and n.module:
            for a in n.names:
                al[a.asname or a.name] = n.module + '.' + a.name
    return al


def _dotted(node):
    parts = []
    while isinstance(node, _ast.Attribute):
        parts.append(node.attr)
        node = node.value
    if isinstance(node, _ast.Name):
        parts.append(node.id)
        return list(reversed(parts))
    return None


def table_xml_callsites():
    """C11: every call in the package that can parse XML goes through the hardened parser (defusedxml).  One obligation
    per call site whose callee name is an XML parsing entry; the inventory is rebuilt from the working tree on every run,
    so a new call site is a new obligation."""
    results, n_sites = [], 0
    bad = []
    hardened_sites = []
    for path in _module_files():
        rel = _os.path.relpath(path, front.SRC)
        try:
            tree = _ast.parse(open(path, encoding='utf-8').read(), filename=path)
        except SyntaxError as e:
            bad.append('%s: cannot parse (%s)' % (rel, e))
            continue
        al = _aliases(tree)
        methods = set()
        for n in _ast.walk(tree):
            if isinstance(n, (_ast.FunctionDef, _ast.AsyncFunctionDef)):
                methods.add(n.name)
        for n in _ast.walk(tree):
            if not isinstance(n, _ast.Call):
                continue
            d = _dotted(n.func)
            if d is None:
                # call on a computed receiver: x().fromstring(...), parsers[i].parse(...)
                if isinstance(n.func, _ast.Attribute) and n.func.attr in XML_PARSE_NAMES - {'parse'}:
                    n_sites += 1
                    bad.append('%s:%d unresolvable receiver for .%s(...)' % (rel, n.lineno, n.func.attr))
                continue
            if d[-1] not in XML_PARSE_NAMES:
                continue
            head = al.get(d[0])
            full = '.'.join(([head] if head else [d[0]]) + d[1:])
            if head is None and d[0] in ('self', 'cls') and d[-1] in methods:
                continue        # a method of the package's own class, not a parser entry point
            if head is None and len(d) == 1 and d[0] in methods:
                continue        # a function defined in this module
            if full.startswith(HARDENED_PREFIX):
                n_sites += 1
                hardened_sites.append('%s:%d %s' % (rel, n.lineno, full))
                continue
            if full.startswith(UNSAFE_PREFIX) or head is None:
                if (rel, full) in ALLOWED_SITES:
                    n_sites += 1
                    continue
                if head is None and d[-1] == 'parse' and not any(x in ('ElementTree', 'etree', 'minidom', 'sax', 'expat')
                                                                 for x in d):
                    continue    # .parse() on a non-XML receiver (urlparse results, argument parsers, own objects)
                n_sites += 1
                bad.append('%s:%d %s(...) parses with an unhardened parser' % (rel, n.lineno, full))
                continue
            if full.startswith(front.PKG + '.'):
                continue        # the package's own wrappers are inventoried at their definition
            if d[-1] == 'parse':
                continue
            n_sites += 1
            bad.append('%s:%d %s(...) unknown parser entry' % (rel, n.lineno, full))
    results.append({'name': 'callsite[xml-parsers-hardened]', 'ok': not bad, 'cases': n_sites, 'witness': bad[:10],
                    'hardened_sites': hardened_sites})
    return results


# ------------------------------------------------------------------------------------------------ C12 / C13: schema tables
SCHEMA_PACKAGES = ['saml2_tophat.saml', 'saml2_tophat.samlp', 'saml2_tophat.md', 'saml2_tophat.xmldsig', 'saml2_tophat.xmlenc',
                   'saml2_tophat.extension', 'saml2_tophat.schema', 'saml2_tophat.ws', 'saml2_tophat.authn_context',
                   'saml2_tophat.profile', 'saml2_tophat.entity_category', 'saml2_tophat.attributemaps']


def schema_modules():
    import importlib
    import pkgutil
    mods = []
    for name in SCHEMA_PACKAGES:
        try:
            m = importlib.import_module(name)
        except Exception:
            continue
        mods.append(m)
        if hasattr(m, '__path__'):
            for info in pkgutil.walk_packages(m.__path__, m.__name__ + '.'):
                try:
                    mods.append(importlib.import_module(info.name))
                except Exception:
                    pass
    seen, out = set(), []
    for m in mods:
        if m.__name__ not in seen:
            seen.add(m.__name__)
            out.append(m)
    return out


def schema_classes():
    import saml2_tophat
    out, seen = [], set()
    for m in schema_modules():
        for n in sorted(vars(m)):
            c = vars(m)[n]
            if isinstance(c, type) and issubclass(c, saml2_tophat.SamlBase) and c.__module__ == m.__name__ and c not in seen:
                seen.add(c)
                out.append(c)
    return out


def table_schema_children():
    """C12: generated c_children / c_child_order / member-name tables of every schema class are well formed"""
    classes = schema_classes()
    bad_key, bad_names, bad_order, n1, n2, n3 = [], [], [], 0, 0, 0
    for c in classes:
        q = '%s.%s' % (c.__module__, c.__name__)
        names = ['text', 'extension_elements', 'extension_attributes']
        for key, (name, klass) in c.c_children.items():
            n1 += 1
            member = klass[0] if isinstance(klass, list) else klass
            if not isinstance(member, type):
                bad_key.append('%s: child %r has no member class' % (q, name))
                continue
            want = '{%s}%s' % (member.c_namespace, member.c_tag)
            if key != want:
                bad_key.append('%s: child member %r keyed %r but its class %s serialises as %r' % (q, name, key, member.__name__, want))
            names.append(name)
        for key, spec in c.c_attributes.items():
            names.append(spec[0])
        n2 += 1
        dup = sorted(set(x for x in names if names.count(x) > 1))
        if dup:
            bad_names.append('%s: member name(s) %s declared twice' % (q, dup))
        if c.c_child_order:
            n3 += 1
            child_names = [v[0] for v in c.c_children.values()]
            missing = [x for x in child_names if x not in c.c_child_order]
            strangers = [x for x in c.c_child_order if x not in child_names]
            if missing or strangers:
                bad_order.append('%s: c_child_order misses %s / has strangers %s' % (q, missing, strangers))
    return [_result('table[c_children-key-is-member-tag]', bad_key, n1),
            _result('table[member-names-unique]', bad_names, n2),
            _result('table[c_child_order-covers-children]', bad_order, n3)]


def table_schema_factories():
    """C12: ELEMENT_FROM_STRING / ELEMENT_BY_TAG of every schema module map a class's own tag to that class / its parser"""
    bad, n = [], 0
    for m in schema_modules():
        by_tag = getattr(m, 'ELEMENT_BY_TAG', None)
        from_string = getattr(m, 'ELEMENT_FROM_STRING', None)
        if by_tag:
            for tag, c in by_tag.items():
                n += 1
                if not isinstance(c, type) or getattr(c, 'c_tag', None) != tag:
                    bad.append('%s.ELEMENT_BY_TAG[%r] is %r' % (m.__name__, tag, c))
        if from_string:
            for tag, fn in from_string.items():
                n += 1
                cands = [c for c in vars(m).values() if isinstance(c, type) and getattr(c, 'c_tag', None) == tag]
                if not callable(fn) or not cands:
                    bad.append('%s.ELEMENT_FROM_STRING[%r]: no class with that tag / not callable' % (m.__name__, tag))
    return [_result('table[element-factories]', bad, n)]


def table_validators():
    """C13: every simple type named by any c_attributes entry of any schema class resolves to a validator (directly or
    after the 'ns:' split), or is a class with c_value_type -- otherwise valid_instance raises KeyError on valid input"""
    validate = front.module_obj('saml2_tophat.validate')
    bad, n = [], 0
    for c in schema_classes():
        for key, spec in c.c_attributes.items():
            t = spec[1]
            n += 1
            if isinstance(t, str):
                tt = t
                if tt not in validate.VALIDATOR:
                    parts = tt.split(':')
                    if len(parts) == 2:
                        tt = parts[1]
                    elif tt == '':
                        tt = 'string'
                if tt not in validate.VALIDATOR:
                    bad.append('%s.%s attribute %s: type %r has no validator' % (c.__module__, c.__name__, spec[0], t))
            elif isinstance(t, type):
                if not hasattr(t, 'c_value_type'):
                    bad.append('%s.%s attribute %s: class type without c_value_type' % (c.__module__, c.__name__, spec[0]))
            else:
                bad.append('%s.%s attribute %s: unusable type %r' % (c.__module__, c.__name__, spec[0], t))
        vt = getattr(c, 'c_value_type', None)
        if vt:
            for k in ('base', 'member'):
                if k in vt and vt[k] != 'list':
                    n += 1
                    tt = vt[k]
                    if tt not in validate.VALIDATOR and tt.split(':')[-1] not in validate.VALIDATOR:
                        bad.append('%s.%s text value type %r has no validator' % (c.__module__, c.__name__, tt))
    # the checked kinds map to validators that really check them
    want = {'dateTime': 'valid_date_time', 'boolean': 'valid_boolean', 'integer': 'valid_integer',
            'nonNegativeInteger': 'valid_non_negative_integer', 'positiveInteger': 'valid_positive_integer',
            'unsignedShort': 'valid_unsigned_short', 'unsignedByte': 'valid_unsigned_byte', 'duration': 'valid_duration'}
    for k, fn in want.items():
        n += 1
        got = validate.VALIDATOR.get(k)
        if got is None or got.__name__ != fn:
            bad.append('VALIDATOR[%r] is %s, expected %s' % (k, getattr(got, '__name__', got), fn))
    return [_result('table[VALIDATOR-covers-declared-types]', bad, n)]
