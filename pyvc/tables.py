"""Finite-table obligations (DESIGN 2.12): ground facts about the generated tables of the current tree,
decided by complete enumeration.  Each function returns a list of {'name', 'ok', 'cases', 'witness'}."""
from . import front
