"""Front end: reads the real function bodies from the working tree with `ast` on every run,
resolves names through the imported (current-tree) package, and keeps the class registry."""
import ast
import builtins
import hashlib
import importlib
import inspect
import os
import sys
import types as pytypes
import warnings

REPO = os.environ.get('PYVC_REPO', '/repo')
SRC = os.path.join(REPO, 'src')
PKG = 'saml2_tophat'

if SRC not in sys.path:
    sys.path.insert(0, SRC)
warnings.simplefilter('ignore')
# the repository's own modules call warnings.simplefilter('default') on import; its dependencies' deprecation chatter is
# not part of any verdict
warnings.showwarning = lambda *a, **k: None

# modules whose classes are registered (fixed list => deterministic class ids)
REGISTER_MODULES = [
    'saml2_tophat', 'saml2_tophat.saml', 'saml2_tophat.samlp', 'saml2_tophat.md', 'saml2_tophat.xmldsig',
    'saml2_tophat.xmlenc', 'saml2_tophat.validate', 'saml2_tophat.time_util', 'saml2_tophat.s_utils',
    'saml2_tophat.sigver', 'saml2_tophat.response', 'saml2_tophat.request', 'saml2_tophat.entity',
    'saml2_tophat.client_base', 'saml2_tophat.client', 'saml2_tophat.server', 'saml2_tophat.assertion',
    'saml2_tophat.mdstore', 'saml2_tophat.config', 'saml2_tophat.pack', 'saml2_tophat.soap',
    'saml2_tophat.ident', 'saml2_tophat.cache', 'saml2_tophat.population', 'saml2_tophat.attribute_converter',
    'saml2_tophat.metadata', 'saml2_tophat.cert', 'saml2_tophat.httpbase', 'saml2_tophat.sdb',
    'saml2_tophat.mcache', 'saml2_tophat.mdie', 'saml2_tophat.eptid', 'saml2_tophat.authn_context',
    'saml2_tophat.saml2_tophat' if False else 'saml2_tophat.argtree',
]


class Unsupported(Exception):
    """construct outside the verified subset: the function cannot be counted as proved"""


class FrontError(Exception):
    pass


_mod_ast = {}
_mod_src = {}


def module_file(modname):
    rel = modname.replace('.', '/')
    for cand in (os.path.join(SRC, rel + '.py'), os.path.join(SRC, rel, '__init__.py')):
        if os.path.exists(cand):
            return cand
    raise FrontError('no source for module %s under %s' % (modname, SRC))


def module_ast(modname):
    if modname not in _mod_ast:
        path = module_file(modname)
        with open(path, encoding='utf-8') as f:
            src = f.read()
        _mod_src[modname] = src
        _mod_ast[modname] = ast.parse(src, filename=path)
    return _mod_ast[modname]


def module_obj(modname):
    try:
        return importlib.import_module(modname)
    except Exception as e:                      # the tree does not import: undecided, not a violation
        raise FrontError('cannot import %s from the working tree: %r' % (modname, e))


class FnInfo(object):
    def __init__(self, qual, node, modname, clsname):
        self.qual, self.node, self.modname, self.clsname = qual, node, modname, clsname
        path = module_file(modname)
        self.file = os.path.relpath(path, REPO)
        self.lines = (node.lineno, node.end_lineno)
        seg = ast.get_source_segment(_mod_src[modname], node) or ''
        self.sha256 = hashlib.sha256(seg.encode('utf-8')).hexdigest()

    def describe(self):
        return {'function': self.qual, 'file': self.file, 'lines': list(self.lines), 'sha256': self.sha256}


_fn_cache = {}


def find_function(qual):
    """qual = 'pkg.mod:func' or 'pkg.mod:Class.method' (also nested 'outer.inner')."""
    if qual in _fn_cache:
        return _fn_cache[qual]
    modname, path = qual.split(':')
    tree = module_ast(modname)
    parts = path.split('.')
    body = tree.body
    node = None
    clsname = None
    for i, p in enumerate(parts):
        found = None
        for n in _iter_defs(body):
            if isinstance(n, (ast.FunctionDef, ast.ClassDef)) and n.name == p:
                found = n       # last definition wins, like at run time
        if found is None:
            raise FrontError('function %s not found in the working tree' % qual)
        node = found
        if isinstance(found, ast.ClassDef) and i == 0:
            clsname = found.name
        body = found.body
    if not isinstance(node, ast.FunctionDef):
        raise FrontError('%s is not a function' % qual)
    fi = FnInfo(qual, node, modname, clsname)
    _fn_cache[qual] = fi
    return fi


def _iter_defs(body):
    for n in body:
        if isinstance(n, (ast.FunctionDef, ast.ClassDef)):
            yield n
        elif isinstance(n, (ast.If, ast.Try)):
            for sub in ast.iter_child_nodes(n):
                if isinstance(sub, (ast.FunctionDef, ast.ClassDef)):
                    yield sub
            for fld in ('body', 'orelse', 'finalbody'):
                for x in _iter_defs(getattr(n, fld, []) or []):
                    yield x


# ---------------------------------------------------------------------------------- classes

_cls_ids = {}
_cls_objs = {}
_id_cls = {}
_registered = [False]

BUILTIN_EXC = [BaseException, Exception, ArithmeticError, AssertionError, AttributeError, EOFError, ImportError,
               LookupError, IndexError, KeyError, NameError, OSError, RuntimeError, NotImplementedError,
               StopIteration, SyntaxError, TypeError, ValueError, UnicodeError, UnicodeDecodeError,
               UnicodeEncodeError, ZeroDivisionError, FileNotFoundError, MemoryError, SystemExit,
               KeyboardInterrupt, UnboundLocalError, OverflowError]


def cls_qual(c):
    if c.__module__ == 'builtins':
        return 'builtins:' + c.__qualname__
    return '%s:%s' % (c.__module__, c.__qualname__)


def _register(c):
    q = cls_qual(c)
    if q not in _cls_ids:
        i = len(_cls_ids) + 1
        _cls_ids[q] = i
        _cls_objs[q] = c
        _id_cls[i] = q
    return q


def ensure_registry():
    if _registered[0]:
        return
    _registered[0] = True
    _register(object)
    for c in BUILTIN_EXC:
        _register(c)
    for m in REGISTER_MODULES:
        try:
            mo = module_obj(m)
        except FrontError:
            continue
        for name in sorted(vars(mo)):
            c = vars(mo)[name]
            if isinstance(c, type) and getattr(c, '__module__', '').startswith(PKG):
                _register(c)
    # anything else already imported from the package
    for mn in sorted(sys.modules):
        if mn.startswith(PKG):
            mo = sys.modules[mn]
            for name in sorted(vars(mo)):
                c = vars(mo)[name]
                if isinstance(c, type) and getattr(c, '__module__', '').startswith(PKG):
                    _register(c)


def cls_id(q):
    ensure_registry()
    if q not in _cls_ids:
        c = cls_obj(q)
        _register(c)
    return _cls_ids[q]


def cls_obj(q):
    ensure_registry()
    if q in _cls_objs:
        return _cls_objs[q]
    modname, name = q.split(':')
    if modname == 'builtins':
        c = getattr(builtins, name)
    else:
        c = module_obj(modname)
        for p in name.split('.'):
            c = getattr(c, p)
    _register(c)
    return c


def id_cls(i):
    return _id_cls.get(i)


_sub_cache = {}


def subclass_ids(q, only_exceptions=False):
    """ids of all registered classes that are subclasses of q (closed world, A-PY)"""
    ensure_registry()
    key = (q, len(_cls_ids))
    if key in _sub_cache:
        return _sub_cache[key]
    r = _subclass_ids(q)
    _sub_cache[key] = r
    return r


_member_uniform = {}


def member_is_uniform(q, attr):
    """does every registered subclass of q have the same value for the class-level member attr as q itself?"""
    key = (q, attr)
    if key not in _member_uniform:
        ensure_registry()
        base = cls_obj(q)
        ref = getattr(base, attr, None)
        ok = True
        for qq, c in list(_cls_objs.items()):
            try:
                if c is not base and issubclass(c, base):
                    v = getattr(c, attr, None)
                    if v is not ref and v != ref:
                        ok = False
                        break
            except Exception:
                continue
        _member_uniform[key] = ok
    return _member_uniform[key]


def _subclass_ids(q):
    base = cls_obj(q)
    out = []
    for qq, c in list(_cls_objs.items()):
        try:
            if issubclass(c, base):
                out.append(_cls_ids[qq])
        except TypeError:
            pass
    return sorted(out)


def is_subclass(q1, q2):
    return issubclass(cls_obj(q1), cls_obj(q2))


def resolve_exc_name(modname, name):
    """exception class name used in a contract -> qualified name.  Looks in the module, then the package's
    well-known modules, then builtins."""
    if ':' in name:
        return name
    mo = module_obj(modname)
    c = getattr(mo, name, None)
    if isinstance(c, type):
        return cls_qual(c)
    if hasattr(builtins, name) and isinstance(getattr(builtins, name), type):
        return 'builtins:' + name
    ensure_registry()
    cands = [q for q in _cls_ids if q.endswith(':' + name)]
    if len(cands) == 1:
        return cands[0]
    raise FrontError('cannot resolve class name %s (from %s): %s' % (name, modname, cands))


def method_owner(clsq, name):
    """defining class of method `name` for receiver class clsq, via the real MRO"""
    c = cls_obj(clsq)
    for k in c.__mro__:
        if name in k.__dict__:
            return k, k.__dict__[name]
    return None, None


# ---------------------------------------------------------------------------------- names

CONST_TYPES = (type(None), bool, int, str, bytes)


def is_const_data(v, depth=0):
    if isinstance(v, CONST_TYPES):
        return True
    if depth > 4:
        return False
    if isinstance(v, tuple) and v and all(isinstance(x, type) for x in v):
        return True         # tuple of classes (six.string_types)
    if isinstance(v, (list, tuple)):
        return all(is_const_data(x, depth + 1) for x in v)
    if isinstance(v, dict):
        return all(is_const_data(k, depth + 1) and is_const_data(x, depth + 1) for k, x in v.items())
    return False


_MUTATORS = ('append', 'extend', 'insert', 'remove', 'pop', 'clear', 'update', 'setdefault', 'popitem', 'add', 'discard', 'sort',
             'reverse')
_MUTATED = []


def mutated_names():
    """identifiers (bare names and attribute names) that are the target of an in-place mutation somewhere in the package
    source: x[k] = v, del x[k], x[k] += v, x.append(..) ...  A module- or class-level container with such a name is NOT
    constant data (name-based over-approximation: sound, may refuse more than necessary)."""
    if _MUTATED:
        return _MUTATED[0]
    out = set()

    def base_name(e):
        if isinstance(e, ast.Name):
            return e.id
        if isinstance(e, ast.Attribute):
            return e.attr
        return None

    root = os.path.join(SRC, PKG)
    for dp, _, files in os.walk(root):
        for fn in files:
            if not fn.endswith('.py'):
                continue
            try:
                with open(os.path.join(dp, fn), encoding='utf-8') as f:
                    tree = ast.parse(f.read())
            except Exception:
                continue
            # only code inside functions counts: class bodies / module level build their tables once, at import
            inside = [m for f in ast.walk(tree) if isinstance(f, (ast.FunctionDef, ast.AsyncFunctionDef, ast.Lambda))
                      for m in ast.walk(f)]
            for n in inside:
                targets = []
                if isinstance(n, ast.Assign):
                    targets = n.targets
                elif isinstance(n, (ast.AugAssign, ast.AnnAssign)):
                    targets = [n.target]
                elif isinstance(n, ast.Delete):
                    targets = n.targets
                for t in targets:
                    if isinstance(t, ast.Subscript):
                        b = base_name(t.value)
                        if b:
                            out.add(b)
                if isinstance(n, ast.Call) and isinstance(n.func, ast.Attribute) and n.func.attr in _MUTATORS:
                    b = base_name(n.func.value)
                    if b:
                        out.add(b)
    _MUTATED.append(out)
    return out


def is_shared_mutable(name, v):
    return isinstance(v, (list, dict, set)) and name in mutated_names()


def resolve_global(modname, name):
    """-> (kind, payload): func/class/module/const/object/builtin/missing"""
    mo = module_obj(modname)
    if name in vars(mo):
        v = vars(mo)[name]
        if is_shared_mutable(name, v):
            return ('object', v)        # a module-level container that some code mutates is state, not a constant
        return classify(v)
    if hasattr(builtins, name):
        return classify(getattr(builtins, name))
    return ('missing', name)


# re-implementations of a standard module that the external contracts (E-URL) treat as the standard one
MODULE_ALIASES = {'future.backports.urllib.parse': 'urllib.parse', 'future.moves.urllib.parse': 'urllib.parse',
                  'xml.etree.cElementTree': 'xml.etree.ElementTree'}


def classify(v):
    if isinstance(v, pytypes.ModuleType):
        return ('module', v.__name__)
    if isinstance(v, type):
        return ('class', cls_qual(v))
    if isinstance(v, pytypes.FunctionType):
        return ('func', '%s:%s' % (MODULE_ALIASES.get(v.__module__, v.__module__), v.__qualname__))
    if isinstance(v, (pytypes.BuiltinFunctionType, pytypes.MethodType, pytypes.MethodDescriptorType)):
        mod = getattr(v, '__module__', None) or 'builtins'
        slf = getattr(v, '__self__', None)
        if isinstance(slf, pytypes.ModuleType):
            mod = slf.__name__
        elif isinstance(slf, type):
            mod = slf.__module__
        return ('func', '%s:%s' % (mod, v.__qualname__))
    if is_const_data(v):
        return ('const', v)
    return ('object', v)


def func_signature_defaults(fi):
    """parameter names, defaults (as AST nodes), vararg / kwarg names of a FunctionDef"""
    a = fi.node.args
    pos = [x.arg for x in a.posonlyargs + a.args]
    defaults = {}
    for name, d in zip(pos[len(pos) - len(a.defaults):], a.defaults):
        defaults[name] = d
    kwonly = [x.arg for x in a.kwonlyargs]
    for name, d in zip(kwonly, a.kw_defaults):
        if d is not None:
            defaults[name] = d
    return pos, kwonly, defaults, (a.vararg.arg if a.vararg else None), (a.kwarg.arg if a.kwarg else None)


def schema_fields(clsq):
    """declared members of a generated schema class: name -> ('attr'|'child'|'children', member class or None)"""
    c = cls_obj(clsq)
    out = {}
    if not hasattr(c, 'c_children'):
        return None
    for key, (name, klass) in c.c_children.items():
        if isinstance(klass, list):
            out[name] = ('children', cls_qual(klass[0]) if klass and isinstance(klass[0], type) else None)
        else:
            out[name] = ('child', cls_qual(klass) if isinstance(klass, type) else None)
    for key, spec in c.c_attributes.items():
        out[spec[0]] = ('attr', None)
    out['text'] = ('attr', None)
    out['extension_elements'] = ('ext_elems', None)
    out['extension_attributes'] = ('ext_attrs', None)
    return out
