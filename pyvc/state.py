"""Symbolic state and the semantic operations shared by the executor (code mode) and the
contract language (spec mode)."""
import z3
from .sorts import *          # noqa
from . import sorts as S
from . import types as Ty
from . import front
from .front import Unsupported

KIND = z3.Function('KIND', IntS, IntS)      # allocation kind of an address (never changes, see DESIGN 2.4)
CLS = z3.Function('CLS', IntS, IntS)        # class id of an address     (never changes)


class SV(object):
    """a symbolic Python value: Val-sorted term + static type (+ the concrete Python object when known)"""
    __slots__ = ('term', 'ty', 'py', 'has_py')

    def __init__(self, term, ty=Ty.ANY, py=None, has_py=False):
        self.term, self.ty, self.py, self.has_py = term, ty, py, has_py

    def __repr__(self):
        return 'SV(%s : %r)' % (self.term, self.ty)


def tid(term):
    """key of a term for per-path side tables (hash-consed ast id; str() of a big term is exponential)"""
    return 't%d' % z3.simplify(term).get_id()


def const_sv(v):
    t = {type(None): Ty.NONE, bool: Ty.BOOL, int: Ty.INT, str: Ty.STR, bytes: Ty.BYTES}[type(v)]
    return SV(lit(v), t, v, True)


class State(object):
    def __init__(self):
        self.env = {}
        self.heap = {}          # field name -> Array Int Val
        self.L = z3.Const('L0', ListArr)
        self.DK = z3.Const('DK0', DKArr)
        self.DV = z3.Const('DV0', DVArr)
        self.DSZ = z3.Const('DSZ0', IntArr)
        self.nxt = z3.Int('next0')
        self.pc = []
        self.pk = []            # kind of each pc entry: 'f' fork literal (branch decision) | 'a' assumed fact
        self.cur_exc = None     # exception being handled (for bare `raise`)
        self.trace = []         # human-readable branch decisions
        self.notes = {}         # misc per-path ghost (e.g. known keys of literal dicts)

    def copy(self):
        n = State.__new__(State)
        n.env = dict(self.env)
        n.heap = dict(self.heap)
        n.L, n.DK, n.DV, n.DSZ, n.nxt = self.L, self.DK, self.DV, self.DSZ, self.nxt
        n.pc = list(self.pc)
        n.pk = list(self.pk)
        n.cur_exc = self.cur_exc
        n.trace = list(self.trace)
        n.notes = dict(self.notes)
        return n

    def assume(self, c, kind='a'):
        c2 = z3.simplify(c)
        if z3.is_true(c2) or z3.is_false(c2):
            c = c2      # otherwise keep the original term: simplify rewrites seq.nth into solver-internal forms
        if not z3.is_true(c) and not any(c.eq(x) for x in self.pc[-40:]):
            self.pc.append(c)
            self.pk.append(kind)
        return self

    def field(self, f):
        if f not in self.heap:
            self.heap[f] = z3.Const('H0_' + f, FieldArr)
        return self.heap[f]


# ------------------------------------------------------------------------------ class / field declarations

CLASS_DECL = {}     # qual -> {'fields': {name: type}, 'truthy': ghostname or None, 'open': bool}


def declare_class(qual, fields=None, truthy=None, open=False, methods=None, seq=None, elem=None):
    """seq / elem: the instances behave as an immutable sequence (len, indexing, iteration) whose content is the ghost
    sequence function `seq` of the object, with elements of type `elem` (external container classes such as ElementTree's)"""
    d = CLASS_DECL.setdefault(qual, {'fields': {}, 'truthy': None, 'open': False, 'methods': {}})
    d['methods'].update(methods or {})
    if seq:
        d['seq'] = (seq, Ty.parse_type(elem or 'Any'))
    for k, v in (fields or {}).items():
        d['fields'][k] = Ty.parse_type(v)
    if truthy:
        d['truthy'] = truthy
    d['open'] = d['open'] or open
    return d


_schema_cache = {}


def field_type(clsq, fname):
    """declared type of field fname on instances of clsq (walks the real MRO); None = no such field"""
    key = (clsq, fname)
    if key in _schema_cache:
        return _schema_cache[key]
    res = None
    c = front.cls_obj(clsq)
    for k in c.__mro__:
        q = front.cls_qual(k)
        if q in CLASS_DECL and fname in CLASS_DECL[q]['fields']:
            res = CLASS_DECL[q]['fields'][fname]
            break
    if res is None:
        sf = front.schema_fields(clsq)
        if sf is not None and fname in sf:
            kind, member = sf[fname]
            if kind == 'attr':
                res = Ty.Opt(Ty.STR)
            elif kind == 'child':
                res = Ty.Opt(Ty.Inst(member)) if member else Ty.ANY
            elif kind == 'children':
                res = Ty.List(Ty.Inst(member)) if member else Ty.List(Ty.ANY)
            elif kind == 'ext_elems':
                res = Ty.List(Ty.Inst('saml2_tophat:ExtensionElement'))
            elif kind == 'ext_attrs':
                res = Ty.Dict(Ty.STR, Ty.STR)
    _schema_cache[key] = res
    return res


def class_seq(clsq):
    """(ghost name, element type) when instances of clsq are declared sequence-like"""
    try:
        c = front.cls_obj(clsq)
    except Exception:
        return None
    for k in c.__mro__:
        q = front.cls_qual(k)
        if q in CLASS_DECL and CLASS_DECL[q].get('seq'):
            return CLASS_DECL[q]['seq']
    return None


def class_truthy_ghost(clsq):
    c = front.cls_obj(clsq)
    for k in c.__mro__:
        q = front.cls_qual(k)
        if q in CLASS_DECL and CLASS_DECL[q]['truthy']:
            return CLASS_DECL[q]['truthy']
    for k in c.__mro__:
        if '__len__' in k.__dict__ or '__bool__' in k.__dict__:
            return '?'      # overridden truthiness without a declared ghost
    return None


# ------------------------------------------------------------------------------ ghost functions

GLOBAL_OBJECTS = {}     # 'mod:NAME' -> static type of a module-level mutable object (lives in the pre-state heap)


def global_object_sv(q):
    a = z3.Int('g_' + q.replace(':', '_').replace('.', '_'))
    return SV(VRef(a), GLOBAL_OBJECTS[q])


GHOSTS = {}
GHOST_AXIOMS = {}      # ghost name -> [(label, closed spec text, module)] assumed whenever the ghost is mentioned (E-* items)


REVEAL = {}     # axiom label -> short names of the functions whose obligations may use it (opaque elsewhere)


def axiom(ghostname, label, text, modname='saml2_tophat.sigver', reveal_in=None):
    """reveal_in: the definition is opaque except in the proofs of the listed functions (keeps unrelated queries small)"""
    GHOST_AXIOMS.setdefault(ghostname, []).append((label, text, modname))
    if reveal_in:
        REVEAL[label] = list(reveal_in)

_SORTS = {'Val': Val, 'Int': IntS, 'Bool': BoolS, 'Str': StrS, 'Seq': SeqVal, 'KeySet': KeySet, 'KeyMap': KeyMap}


def ghost(name, argsorts, ressort):
    if name in GHOSTS:
        return GHOSTS[name]
    doms = [_SORTS[a] for a in argsorts]
    rng = _SORTS[ressort]
    if doms:
        f = z3.Function(name, *(doms + [rng]))
    else:
        f = z3.Const(name, rng)
    GHOSTS[name] = (f, list(argsorts), ressort)
    return GHOSTS[name]


# ------------------------------------------------------------------------------ semantic operations

def cls_in(cterm, clsq):
    """class-id term denotes a subclass of clsq (closed world over the registry)"""
    ids = front.subclass_ids(clsq)
    if len(ids) > 60:
        return TRUE
    return Or(*[cterm == i for i in ids])


class _NxtView(object):
    """a state seen with another allocation bound (values read from the untouched pre-state heap were allocated
    before the function was entered)"""
    def __init__(self, st, nxt):
        self._st, self.nxt = st, nxt

    def __getattr__(self, name):
        return getattr(self._st, name)


def in_pre(untouched, container_addr):
    """the value is read from an array the function has not written AND out of a container that itself existed at entry:
    only then is it known to have been allocated before entry (a container handed out fresh by a callee may hold fresh
    objects although the array term is still the entry one)"""
    if untouched is False or untouched is None:
        return False
    return container_addr < z3.Int('next0')


def shape(st, term, ty, pre=False):
    """depth-1 shape predicate of a value for a static type (E-PARSE / declared object invariants)"""
    if pre is True:
        st = _NxtView(st, z3.Int('next0'))
    elif pre is not False and pre is not None:
        st = _NxtView(st, z3.If(pre, z3.Int('next0'), st.nxt))
    if isinstance(ty, Ty.TAny):
        # closed heap: a reference stored anywhere points to an allocated object
        return Implies(is_ref(term), And(va(term) >= 0, va(term) < st.nxt))
    if isinstance(ty, (Ty.TFunc, Ty.TModule)):
        return TRUE
    if isinstance(ty, Ty.TNone):
        return is_none(term)
    if isinstance(ty, Ty.TBool):
        return is_bool(term)
    if isinstance(ty, Ty.TInt):
        return is_int(term)
    if isinstance(ty, Ty.TStr):
        return is_str(term)
    if isinstance(ty, Ty.TBytes):
        return is_bytes(term)
    if isinstance(ty, Ty.TCls):
        return is_cls(term)
    if isinstance(ty, Ty.TOpt):
        return Or(is_none(term), shape(st, term, ty.t))
    if isinstance(ty, Ty.TUnion):
        return Or(*[shape(st, term, t) for t in ty.ts])
    a = va(term)
    if isinstance(ty, Ty.TInst):
        return And(is_ref(term), a >= 0, a < st.nxt, KIND(a) == K_INST, cls_in(CLS(a), ty.cls))
    if isinstance(ty, Ty.TList):
        return And(is_ref(term), a >= 0, a < st.nxt, KIND(a) == K_LIST)
    if isinstance(ty, Ty.TTuple):
        return And(is_ref(term), a >= 0, a < st.nxt, KIND(a) == K_TUPLE, z3.Length(st.L[a]) == len(ty.ts))
    if isinstance(ty, Ty.TDict):
        return And(is_ref(term), a >= 0, a < st.nxt, KIND(a) == K_DICT, st.DSZ[a] >= 0)
    if isinstance(ty, Ty.TSet):
        return And(is_ref(term), a >= 0, a < st.nxt, KIND(a) == K_SET, st.DSZ[a] >= 0)
    raise Unsupported('shape of %r' % (ty,))


def truthy(st, sv):
    t, ty = sv.term, sv.ty
    if sv.has_py and isinstance(sv.py, front.CONST_TYPES):
        return z3.BoolVal(bool(sv.py))
    if isinstance(ty, Ty.TNone):
        return FALSE
    if isinstance(ty, Ty.TBool):
        return vb(t)
    if isinstance(ty, Ty.TInt):
        return vi(t) != 0
    if isinstance(ty, Ty.TStr):
        return z3.Length(vs(t)) > 0
    if isinstance(ty, Ty.TBytes):
        return z3.Length(vy(t)) > 0
    if isinstance(ty, Ty.TOpt):
        return And(Not(is_none(t)), truthy(st, SV(t, ty.t)))
    if isinstance(ty, (Ty.TList, Ty.TTuple)):
        return z3.Length(st.L[va(t)]) > 0
    if isinstance(ty, (Ty.TDict, Ty.TSet)):
        return st.DSZ[va(t)] > 0
    if isinstance(ty, Ty.TInst):
        g = class_truthy_ghost(ty.cls)
        if g is None:
            return TRUE
        if g == '?':
            raise Unsupported('truthiness of %s (class overrides __len__/__bool__, no ghost declared)' % ty.cls)
        return GHOSTS[g][0](t)
    if isinstance(ty, (Ty.TCls, Ty.TFunc, Ty.TModule)):
        return TRUE
    # unknown static type: the general definition (instances of unknown class are truthy: A-PY)
    a = va(t)
    return z3.If(is_none(t), FALSE,
           z3.If(is_bool(t), vb(t),
           z3.If(is_int(t), vi(t) != 0,
           z3.If(is_str(t), z3.Length(vs(t)) > 0,
           z3.If(is_bytes(t), z3.Length(vy(t)) > 0,
           z3.If(is_ref(t),
                 z3.If(Or(KIND(a) == K_LIST, KIND(a) == K_TUPLE), z3.Length(st.L[a]) > 0,
                 z3.If(Or(KIND(a) == K_DICT, KIND(a) == K_SET), st.DSZ[a] > 0, TRUE)),
                 TRUE))))))


def alloc(st, kind, clsq=None):
    a = st.nxt
    st.notes['fresh'] = st.notes.get('fresh', frozenset()) | {a.get_id()}
    st.nxt = st.nxt + 1
    # addresses are concrete offsets of next0 (or of the counter after a call): simplify for readability
    st.nxt = z3.simplify(st.nxt)
    st.assume(KIND(a) == kind)
    if clsq is not None:
        st.assume(CLS(a) == front.cls_id(clsq))
    st.assume(a >= 0)
    return a


def new_list(st, elems, elty=None, kind=K_LIST):
    a = alloc(st, kind)
    seq = z3.Empty(SeqVal)
    for e in elems:
        seq = z3.Concat(seq, z3.Unit(e.term)) if not _is_empty(seq) else z3.Unit(e.term)
    st.L = z3.Store(st.L, a, seq)
    if kind == K_TUPLE:
        ty = Ty.TTuple([e.ty for e in elems])
    else:
        if elty is None:
            for e in elems:
                elty = Ty.join(elty, e.ty)
        ty = Ty.TList(elty or Ty.ANY)
    sv = SV(VRef(a), ty)
    st.notes[('elems', tid(VRef(a)))] = list(elems)      # statically known contents (dropped on mutation)
    if all(e.has_py for e in elems):
        sv.py = [e.py for e in elems] if kind == K_LIST else tuple(e.py for e in elems)
        sv.has_py = kind == K_TUPLE     # lists are mutable: concrete view only for tuples
    return sv


def new_list_from_seq(st, seq, elty=Ty.ANY, kind=K_LIST):
    a = alloc(st, kind)
    st.L = z3.Store(st.L, a, seq)
    return SV(VRef(a), Ty.TList(elty))


def _is_empty(seq):
    return z3.is_app(seq) and seq.decl().kind() == z3.Z3_OP_SEQ_EMPTY


def new_dict(st, items, kty=None, vty=None, infer_values=False):
    a = alloc(st, K_DICT)
    declared_v = vty
    ks = z3.K(Val, FALSE)
    vsm = z3.K(Val, VNone)
    n = z3.IntVal(0)
    for k, v in items:
        n = n + z3.If(ks[k.term], 0, 1)
        ks = z3.Store(ks, k.term, TRUE)
        vsm = z3.Store(vsm, k.term, v.term)
        kty = Ty.join(kty, k.ty)
        vty = Ty.join(vty, v.ty)
    if declared_v is None and not infer_values:
        vty = Ty.ANY        # a dict display does not fix the type of values stored later
    st.DK = z3.Store(st.DK, a, ks)
    st.DV = z3.Store(st.DV, a, vsm)
    st.DSZ = z3.Store(st.DSZ, a, z3.simplify(n))
    return SV(VRef(a), Ty.TDict(kty or Ty.ANY, vty or Ty.ANY))


def new_instance(st, clsq):
    a = alloc(st, K_INST, clsq)
    return SV(VRef(a), Ty.TInst(clsq))


def new_exception(st, clsq, args=None):
    a = alloc(st, K_INST, clsq)
    sv = SV(VRef(a), Ty.TInst(clsq))
    if args is not None:
        tup = new_list(st, args, kind=K_TUPLE)
        st.heap['args'] = z3.Store(st.field('args'), a, tup.term)
    return sv


def seq_of(st, sv):
    return st.L[va(sv.term)]


def elem_type(ty):
    ty = Ty.strip_opt(ty)
    if isinstance(ty, Ty.TList):
        return ty.t
    if isinstance(ty, Ty.TSet):
        return ty.t
    if isinstance(ty, Ty.TDict):
        return ty.k
    if isinstance(ty, Ty.TStr):
        return Ty.STR
    return Ty.ANY


def val_eq(a, b):
    """Python == on the encoding: structural on primitives, identity on references (A-PY)"""
    return a.term == b.term


def int_of(x):
    """coerce a spec/code operand to a z3 Int"""
    if isinstance(x, SV):
        if x.has_py and isinstance(x.py, (int, bool)):
            return z3.IntVal(int(x.py))
        if isinstance(x.ty, Ty.TBool):
            return z3.If(vb(x.term), 1, 0)
        return vi(x.term)
    if isinstance(x, bool):
        return z3.IntVal(int(x))
    if isinstance(x, int):
        return z3.IntVal(x)
    if z3.is_expr(x) and x.sort() == IntS:
        return x
    if z3.is_expr(x) and x.sort() == BoolS:
        return z3.If(x, 1, 0)
    raise Unsupported('not an int: %r' % (x,))


def str_of(x):
    if isinstance(x, SV):
        if x.has_py and isinstance(x.py, str):
            return z3.StringVal(x.py)
        if isinstance(Ty.strip_opt(x.ty), Ty.TBytes):
            return vy(x.term)
        return vs(x.term)
    if isinstance(x, str):
        return z3.StringVal(x)
    if x is None:
        return z3.StringVal('')     # total semantics of the spec language (always under a guard)
    if z3.is_expr(x) and x.sort() == StrS:
        return x
    raise Unsupported('not a str: %r' % (x,))


def val_of(x):
    """coerce to a Val term"""
    if isinstance(x, SV):
        return x.term
    if x is None or isinstance(x, (bool, int, str, bytes)):
        return lit(x)
    if z3.is_expr(x):
        s = x.sort()
        if s == Val:
            return x
        if s == BoolS:
            return VBool(x)
        if s == IntS:
            return VInt(x)
        if s == StrS:
            return VStr(x)
    raise Unsupported('no Val for %r' % (x,))


NO_MERGE = [False]      # refutation mode may run path by path: one conjunctive query per path is far easier to satisfy


def merge_states(items):
    """state merging at control-flow joins: [(state, value or None)] -> merged list (length 1 when possible).
    Guards are the conjunctions of the fork literals taken since the common prefix of the path conditions."""
    if len(items) <= 1 or NO_MERGE[0]:
        return items
    states = [s for s, _ in items]
    vals = [v for _, v in items]
    n = min(len(s.pc) for s in states)
    k = 0
    while k < n and all(states[0].pc[k] is s.pc[k] or states[0].pc[k].eq(s.pc[k]) for s in states[1:]):
        k += 1
    guards, facts = [], []
    for s in states:
        fl = [t for t, kd in zip(s.pc[k:], s.pk[k:]) if kd == 'f']
        al = [t for t, kd in zip(s.pc[k:], s.pk[k:]) if kd == 'a']
        if not fl:
            return items            # nothing distinguishes this state: keep the paths apart
        guards.append(And(*fl))
        facts.append(al)
    if any(s.cur_exc is not states[0].cur_exc for s in states):
        return items
    # statically known dict keys / list elements differ between the branches: keep the paths apart
    def _static(s):
        return sorted((repr(k), repr([getattr(x, 'term', x) for x in v]) if isinstance(v, list) else repr(v))
                      for k, v in s.notes.items() if k not in ('calls', 'fresh'))
    if any(_static(s) != _static(states[0]) for s in states[1:]):
        return items

    def pick(terms):
        out = terms[-1]
        for g, t in zip(reversed(guards[:-1]), reversed(terms[:-1])):
            out = z3.If(g, t, out)
        return out

    def merge_sv(svs):
        if any(not isinstance(x, SV) for x in svs):
            if all(x is svs[0] for x in svs):
                return svs[0]
            return None
        if all(x.term.eq(svs[0].term) for x in svs[1:]) and all(x.ty == svs[0].ty for x in svs[1:]):
            return svs[0]
        ty = None
        for x in svs:
            ty = Ty.join(ty, x.ty)
        if isinstance(ty, Ty.TAny) and not all(isinstance(x.ty, Ty.TAny) for x in svs):
            nonany = [x.ty for x in svs if not isinstance(x.ty, Ty.TAny)]
            if not all(_mergeable(t) for t in nonany):
                return None
        same_py = all(x.has_py for x in svs) and all(type(x.py) is type(svs[0].py) and x.py == svs[0].py for x in svs[1:])
        return SV(pick([x.term for x in svs]), ty, svs[0].py if same_py else None, same_py)

    m = states[0].copy()
    names = set(states[0].env)
    for s in states[1:]:
        if set(s.env) != names:
            return items
    env = {}
    for nm in names:
        r = merge_sv([s.env[nm] for s in states])
        if r is None:
            return items
        env[nm] = r
    mv = None
    if any(v is not None for v in vals):
        mv = merge_sv(vals)
        if mv is None:
            return items
    m.env = env
    m.pc = list(states[0].pc[:k])
    m.pk = list(states[0].pk[:k])
    m.assume(Or(*guards))
    for g, al in zip(guards, facts):
        if al:
            m.assume(Implies(g, And(*al)))
    fields = set()
    for s in states:
        fields |= set(s.heap)
    for f in fields:
        arrs = [s.field(f) for s in states]
        m.heap[f] = arrs[0] if all(a.eq(arrs[0]) for a in arrs[1:]) else pick(arrs)
    for attr in ('L', 'DK', 'DV', 'DSZ'):
        ts = [getattr(s, attr) for s in states]
        setattr(m, attr, ts[0] if all(t.eq(ts[0]) for t in ts[1:]) else pick(ts))
    ns = [s.nxt for s in states]
    if all(t.eq(ns[0]) for t in ns[1:]):
        m.nxt = ns[0]
    else:
        # allocation counter after the join: any value not below the branches' counters (addresses may be skipped)
        nn = fresh('next', IntS)
        m.assume(And(*[nn >= t for t in ns]))
        m.nxt = nn
    # per-path ghost notes
    notes = {}
    base_calls = None
    calls = []
    common = None
    lists = [s.notes.get('calls', ()) for s in states]
    cp = 0
    while all(len(l) > cp for l in lists) and all(l[cp] is lists[0][cp] for l in lists[1:]):
        cp += 1
    merged_calls = tuple(lists[0][:cp])
    for g, l in zip(guards, lists):
        for rec in l[cp:]:
            merged_calls += (rec + (('guard', g),),)
    fresh_ids = frozenset()
    for s in states:
        fresh_ids |= s.notes.get('fresh', frozenset())
        for key, v in s.notes.items():
            if key not in ('calls', 'fresh'):
                notes[key] = v
    notes['fresh'] = fresh_ids
    notes['calls'] = merged_calls
    m.notes = notes
    m.trace = list(states[0].trace[:0]) + ['merge(%d)' % len(states)]
    return [(m, mv)]


def _mergeable(t):
    return isinstance(t, (Ty.TAny, Ty.TNone, Ty.TBool, Ty.TInt, Ty.TStr, Ty.TBytes)) or \
        (isinstance(t, Ty.TOpt) and _mergeable(t.t))


def only_fresh_stores(arr, base, fresh_ids, depth=0):
    """arr is base with stores (possibly under ite) at addresses allocated during this run only"""
    if arr.eq(base):
        return True
    if depth > 400 or not z3.is_app(arr):
        return False
    k = arr.decl().kind()
    if k == z3.Z3_OP_STORE:
        return arr.arg(1).get_id() in fresh_ids and only_fresh_stores(arr.arg(0), base, fresh_ids, depth + 1)
    if k == z3.Z3_OP_ITE:
        return only_fresh_stores(arr.arg(1), base, fresh_ids, depth + 1) and only_fresh_stores(arr.arg(2), base, fresh_ids, depth + 1)
    return False


def sel_L(st, addr):
    """L[addr] with stores at *other freshly allocated addresses* peeled off syntactically (two distinct allocation terms of
    one path denote different addresses); keeps invariants over a list syntactically stable across unrelated allocations"""
    try:
        saddr = z3.simplify(addr)      # only to recognise an allocation term; the returned term keeps `addr` as written
        fresh_ids = st.notes.get('fresh', frozenset()) if hasattr(st, 'notes') else frozenset()
        arr = st.L
        if saddr.get_id() in fresh_ids:
            addr = saddr
            while z3.is_app(arr) and arr.decl().kind() == z3.Z3_OP_STORE:
                idx = z3.simplify(arr.arg(1))
                if idx.get_id() in fresh_ids and idx.get_id() != saddr.get_id():
                    arr = arr.arg(0)
                else:
                    break
        return arr[addr]
    except Exception:
        return st.L[addr]
