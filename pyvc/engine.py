"""Per-function verification: builds the initial symbolic state from the contract, runs the executor over
the real body, and turns every exit into named proof obligations (DESIGN 2.6)."""
import ast
import time
import z3
from .sorts import *      # noqa
from . import types as Ty
from . import front
from .front import Unsupported
from .state import tid
from .state import (SV, State, const_sv, truthy, shape, field_type, KIND, CLS, cls_in, val_of, GHOSTS, merge_states,
                    only_fresh_stores)
from .execcore import Outcome, Obligation, SeqHolder
from .execcall import Exec
from . import spec as SP
from . import builtins as BI    # noqa  (registers handlers)


MUTANTS = {}    # self-test only: qual -> (old text, new text), applied in memory to the parsed function


class FunctionResult(object):
    def __init__(self, qual):
        self.qual = qual
        self.fi = None
        self.obligations = []
        self.error = None           # Unsupported / FrontError text: function cannot be counted as proved
        self.inlined = []
        self.used_contracts = []
        self.assumptions = []
        self.paths = 0
        self.seconds = 0.0
        self.exits = {}


class Engine(object):
    def __init__(self):
        self.nested = {}        # qual -> (FnInfo, captured state)
        self.warnings = []

    def register_nested(self, fi, node, st):
        q = fi.qual + '.' + node.name
        nfi = front.FnInfo.__new__(front.FnInfo)
        nfi.qual, nfi.node, nfi.modname, nfi.clsname = q, node, fi.modname, None
        nfi.file, nfi.lines, nfi.sha256 = fi.file, (node.lineno, node.end_lineno), ''
        self.nested[q] = (nfi, st)

    def contract_for(self, q, recv):
        return SP.CONTRACTS.get(q)

    def call_effects(self, ex, call):
        """what a call inside a loop body may write: (fields, lists, dicts, allocates)"""
        f = call.func
        cands = []
        if isinstance(f, ast.Name):
            if f.id in ex.fi.node.__dict__.get('_nested_names', ()):
                return (set(), True, True, True)
            kind, payload = front.resolve_global(ex.modname, f.id)
            if kind == 'func':
                if payload in SP.CONTRACTS:
                    cands = [SP.CONTRACTS[payload]]
                elif payload.startswith('builtins:'):
                    return None
                else:
                    return (set(), True, True, True) if payload not in SP.CONTRACTS else None
            elif kind == 'class':
                return (set(), False, False, True)
            else:
                return (set(), True, True, True)
        elif isinstance(f, ast.Attribute):
            m = f.attr
            from .execcall import BUILTIN_METHODS
            if any(k[1] == m for k in BUILTIN_METHODS):
                cands_m = [c for q, c in SP.CONTRACTS.items() if q.endswith('.' + m) or q.endswith(':' + m)]
                if not cands_m:
                    return None
                cands = cands_m
            else:
                cands = [c for q, c in SP.CONTRACTS.items() if q.endswith('.' + m) or q.endswith(':' + m)]
                if not cands:
                    return (set(), True, True, True)
        fields, lists, dicts, allocs = set(), False, False, False
        for c in cands:
            for mod in c.modifies:
                mod = mod.strip()
                if mod.startswith('list(') or mod == 'lists':
                    lists = True
                elif mod.startswith('dict(') or mod == 'dicts':
                    dicts = True
                elif '.' in mod:
                    fields.add(mod.rsplit('.', 1)[1])
            if not c.pure:
                allocs = True
        return (fields, lists, dicts, allocs)

    # ------------------------------------------------------------------------------------------
    def verify_function(self, qual, mutate=None, bound=None):
        """-> FunctionResult with all obligations generated from the current source of `qual`.
        `mutate`: optional callable(FunctionDef) applied to a deep copy of the AST (must-kill mutants)."""
        res = FunctionResult(qual)
        del self.warnings[:]
        t0 = time.time()
        SP.BOUND[0] = bound
        del SP.BOUND_SIDE[:]
        try:
            c = SP.CONTRACTS.get(qual)
            if c is None:
                raise Unsupported('no contract registered for %s' % qual)
            fi = front.find_function(c.variant_of or qual)
            if mutate is None and qual in MUTANTS:
                mutate = MUTANTS[qual]
            if mutate is not None:
                # in-memory mutant: textual edit of the function's own source segment, re-parsed
                import textwrap
                old, new = mutate
                seg = ast.get_source_segment(front._mod_src[fi.modname], fi.node)
                if seg.count(old) != 1:
                    raise Unsupported('mutant anchor %r occurs %d times in %s' % (old, seg.count(old), qual))
                pad = ' ' * fi.node.col_offset
                tree = ast.parse(textwrap.dedent(pad + seg.replace(old, new)))
                fi2 = front.FnInfo.__new__(front.FnInfo)
                fi2.__dict__.update(fi.__dict__)
                fi2.node = tree.body[0]
                ast.increment_lineno(fi2.node, fi.node.lineno - 1)
                fi2.mutated = True        # the native replay compiles THIS text (replay._real_function), not the code on disk
                fi = fi2
            res.fi = fi
            self._run(fi, c, res)
        except (Unsupported, front.FrontError, SP.SpecError) as e:
            res.error = '%s: %s' % (e.__class__.__name__, e)
        res.seconds = time.time() - t0
        res.bound = bound
        res.warnings = list(self.warnings)
        del self.warnings[:]
        res.bound_side = list(SP.BOUND_SIDE)
        SP.BOUND[0] = None
        if bound is not None:
            for o in res.obligations:
                if not o.info.get('trivial'):
                    o.assumptions = list(o.assumptions) + res.bound_side
                o.bounded = bound
        return res

    def _run(self, fi, c, res):
        ex = Exec(self, fi, c)
        ex.let_values = {}
        ex.local_names = ex.compute_local_names()
        st = State()
        pos, kwonly, defaults, vararg, kwarg = front.func_signature_defaults(fi)
        params = pos + kwonly + ([vararg] if vararg else []) + ([kwarg] if kwarg else [])
        for p in params:
            ty = c.types.get(p)
            if ty is None:
                if p == 'self' and fi.clsname:
                    ty = Ty.TInst('%s:%s' % (fi.modname, fi.clsname))
                else:
                    ty = Ty.ANY
            if p in c.consts:
                st.env[p] = const_sv(c.consts[p])
                continue
            t = z3.Const('p_' + p, Val)
            st.env[p] = SV(t, ty)
            st.assume(shape(st, t, ty))
            if p == kwarg and ('keys', p) in c.hints:
                st.notes[('keys', tid(t))] = c.hints[('keys', p)]
        sev = SP.SpecEval(st, st.env, fi.modname, extra=ex.let_values)
        for name, text in c.lets.items():
            ex.let_values[name] = sev.value(text)
        for lab, text in c.labelled(c.requires):
            st.assume(sev.bool(text))
        ex.old_state = st.copy()
        res.pre = list(st.pc)
        outs = ex.exec_block(fi.node.body, st)
        if c.merge_exits:
            outs = self.merge_exits(outs, only_raises=(c.merge_exits == 'raises'))
        short = c.qual.split(':', 1)[1]
        modname = fi.modname
        for o in outs:
            if o.kind == 'normal':
                o = Outcome('return', o.st, const_sv(None), site='end')
            if o.kind == 'return':
                res.exits[o.site] = res.exits.get(o.site, 0) + 1
                for lab, text in c.labelled(c.ensures):
                    sev = SP.SpecEval(o.st, ex.old_state.env, modname, old=ex.old_state, result=o.val,
                                      extra=ex.let_values)
                    g = sev.bool(text)
                    st2 = o.st
                    if sev.typing:
                        st2 = o.st.copy()
                        for f in sev.typing:
                            st2.assume(f)
                    ex.oblige(st2, g, 'post[%s]@%s' % (lab, o.site), 'post', {'outcome': o})
                if not isinstance(c.returns, Ty.TAny):
                    ex.oblige(o.st, shape(o.st, o.val.term, c.returns), 'rettype@%s' % o.site, 'post', {'outcome': o})
                self.frame_obligations(ex, c, o, modname)
            elif o.kind == 'raise':
                site = o.site or 'raise'
                key = 'raise:' + site
                res.exits[key] = res.exits.get(key, 0) + 1
                self.raise_obligations(ex, c, o, modname, site)
            else:
                raise Unsupported('%s outside a loop' % o.kind)
        touched = set(ex.old_state.heap)
        for o in outs:
            touched |= set(o.st.heap)
        res.old_state, res.params, res.touched = ex.old_state, params, touched
        if SP.BOUND[0] is not None:
            for p in params:
                sv = ex.old_state.env[p]
                SP.BOUND_SIDE.extend(deep_shape(ex.old_state, sv.term, sv.ty, touched, SP.BOUND[0], 4))
        res.obligations = ex.obligations
        res.inlined = sorted(ex.inlined)
        res.used_contracts = sorted(ex.used_contracts)
        res.paths = len(outs)
        for o in res.obligations:
            o.name = '%s/%s' % (short, o.name)
            o.function = fi.qual

    def merge_exits(self, outs, only_raises=False):
        """exits through the same site are merged (symbolic exception class), like states at a join"""
        from .execcore import Exc
        groups, order = {}, []
        for o in outs:
            key = (o.kind, o.site) if o.kind in ('raise', 'return') else (o.kind, id(o))
            if key not in groups:
                groups[key] = []
                order.append(key)
            groups[key].append(o)
        res = []

        def strip(st):
            # locals and static notes are irrelevant once the function has been left
            c = st.copy()
            c.env = {}
            c.notes = {k: v for k, v in c.notes.items() if k in ('calls', 'fresh')}
            return c
        for key in order:
            grp = groups[key]
            if len(grp) == 1 or key[0] not in ('raise', 'return') or (only_raises and key[0] != 'raise'):
                res.extend(grp)
                continue
            if key[0] == 'return':
                merged = merge_states([(strip(o.st), o.val) for o in grp])
                if len(merged) == 1:
                    res.append(Outcome('return', merged[0][0], merged[0][1], site=key[1]))
                else:
                    res.extend(grp)
                continue
            items = []
            for o in grp:
                items.append((strip(o.st), SV(VInt(o.exc.cid_term()), Ty.INT)))
            merged = merge_states(items)
            if len(merged) == 1:
                mst, cidv = merged[0]
                res.append(Outcome('raise', mst, exc=Exc('builtins:BaseException', None, cid=vi(cidv.term), exact=False),
                                   site=key[1]))
            else:
                res.extend(grp)
        return res

    def raise_obligations(self, ex, c, o, modname, site):
        exc = o.exc
        alts = []
        matched_specs = []
        rids = SP.raise_ids(c, modname)
        for exname, rspec in c.raises.items():
            when = rspec if isinstance(rspec, str) else rspec.get('when', 'True')
            clsq, ids = rids[exname]
            if exname in ('Exception', 'BaseException'):
                m = z3.BoolVal(True)        # "any exception": no enumeration of classes (see apply_contract)
            elif exc.cid is None:
                m = z3.BoolVal(front.cls_id(exc.clsq) in ids)
            else:
                m = Or(*[exc.cid == i for i in ids])
            if z3.is_false(m):
                continue
            cond = SP.SpecEval(ex.old_state, ex.old_state.env, modname, extra=ex.let_values).bool(when)
            alts.append(And(m, cond))
            matched_specs.append((exname, rspec, m))
        label = exc.clsq.split(':')[1] if exc.cid is None else 'symbolic'
        ex.oblige(o.st, Or(*alts) if alts else FALSE, 'raises[%s]@%s' % (label, site), 'raises',
                  {'exception': exc.clsq, 'outcome': o})
        for exname, rspec, m in matched_specs:
            if isinstance(rspec, dict):
                for lab, text in c.labelled(rspec.get('ensures', [])):
                    g = SP.SpecEval(o.st, ex.old_state.env, modname, old=ex.old_state, extra=ex.let_values).bool(text)
                    ex.oblige(o.st, Implies(m, g), 'expost[%s:%s]@%s' % (exname, lab, site), 'post')
        self.frame_obligations(ex, c, o, modname)

    def frame_obligations(self, ex, c, o, modname):
        """nothing outside `modifies` changed on objects that existed before the call"""
        st, old = o.st, ex.old_state
        site = o.site or o.kind
        allowed_any, allowed_obj = set(), {}
        lists_any = dicts_any = False
        list_objs, dict_objs = [], []
        sev = SP.SpecEval(old, old.env, modname, extra=ex.let_values)
        for m in c.modifies:
            m = m.strip()
            if m.startswith('*.'):
                allowed_any.add(m[2:])
            elif m == 'lists':
                lists_any = True
            elif m == 'dicts':
                dicts_any = True
            elif m.startswith('list('):
                list_objs.append(va(val_of(sev.value(m[5:-1]))))
            elif m.startswith('dict('):
                dict_objs.append(va(val_of(sev.value(m[5:-1]))))
            else:
                objtext, f = m.rsplit('.', 1)
                allowed_obj.setdefault(f, []).append(va(val_of(sev.value(objtext))))
        a = z3.Int('fr_a')
        for f, arr in sorted(st.heap.items()):
            if f in allowed_any or f == 'args':
                continue
            base = old.heap.get(f)
            if base is None:
                base = z3.Const('H0_' + f, FieldArr)
            if arr.eq(base) or only_fresh_stores(arr, base, st.notes.get('fresh', frozenset())):
                continue
            excl = [a != x for x in allowed_obj.get(f, [])]
            g = z3.ForAll([a], Implies(And(0 <= a, a < old.nxt, *excl), arr[a] == base[a]))
            ex.oblige(st, g, 'frame[%s]@%s' % (f, site), 'frame')
        fresh_ids = st.notes.get('fresh', frozenset())
        if not lists_any and not st.L.eq(old.L) and not only_fresh_stores(st.L, old.L, fresh_ids):
            excl = [a != x for x in list_objs]
            g = z3.ForAll([a], Implies(And(0 <= a, a < old.nxt, *excl), st.L[a] == old.L[a]))
            ex.oblige(st, g, 'frame[lists]@%s' % site, 'frame')
        if not dicts_any and not (st.DK.eq(old.DK) and st.DV.eq(old.DV)) and not (
                only_fresh_stores(st.DK, old.DK, fresh_ids) and only_fresh_stores(st.DV, old.DV, fresh_ids)):
            excl = [a != x for x in dict_objs]
            g = z3.ForAll([a], Implies(And(0 <= a, a < old.nxt, *excl),
                                       And(st.DK[a] == old.DK[a], st.DV[a] == old.DV[a])))
            ex.oblige(st, g, 'frame[dicts]@%s' % site, 'frame')


def deep_shape(st, term, ty, touched, K, depth):
    """refutation mode only: typing of the whole reachable pre-state (E-PARSE / declared invariants), expanded to
    depth `depth` and list length K, so that counter-models are well-typed object graphs"""
    out = []
    if depth == 0 or isinstance(ty, (Ty.TAny, Ty.TFunc, Ty.TModule, Ty.TCls)):
        return out
    if isinstance(ty, Ty.TOpt):
        inner = deep_shape(st, term, ty.t, touched, K, depth)
        return [Implies(Not(is_none(term)), x) for x in inner]
    if isinstance(ty, Ty.TUnion):
        return out
    a = va(term)
    if isinstance(ty, Ty.TInst):
        for f in sorted(touched):
            ft = field_type(ty.cls, f)
            if ft is None:
                continue
            v = st.field(f)[a]
            out.append(shape(st, v, ft))
            out.extend(deep_shape(st, v, ft, touched, K, depth - 1))
    elif isinstance(ty, Ty.TList):
        seq = st.L[a]
        out.append(z3.Length(seq) <= K)
        for k in range(K):
            v = seq[k]
            out.append(Implies(z3.Length(seq) > k, shape(st, v, ty.t)))
            out.extend([Implies(z3.Length(seq) > k, x) for x in deep_shape(st, v, ty.t, touched, K, depth - 1)])
    elif isinstance(ty, Ty.TTuple):
        seq = st.L[a]
        for k, t in enumerate(ty.ts):
            out.append(shape(st, seq[k], t))
            out.extend(deep_shape(st, seq[k], t, touched, K, depth - 1))
    return out
