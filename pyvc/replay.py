"""Counter-models -> native replay (DESIGN 2.9).  A refuted obligation is re-solved in refutation mode
(bounded quantifier expansion, well-typed pre-state); the model's inputs are rebuilt as real objects of the
real classes, every callee the proof replaced by its contract is stubbed to answer what the model says it
answered, the REAL function from /repo is called, and its outcome is compared with the outcome of the
refuted path."""
import importlib
import os
import subprocess
import sys
import time
import traceback
import z3
from .sorts import *      # noqa
from . import types as Ty
from . import front, solve
from .state import field_type, CLASS_DECL, KIND
from . import spec as SP

HERE = os.path.dirname(os.path.dirname(os.path.abspath(__file__)))


class CannotRebuild(Exception):
    pass


class Divergence(Exception):
    pass


def z3str(v):
    s = v.as_string()
    out, i = [], 0
    while i < len(s):
        if s.startswith('\\u{', i):
            j = s.index('}', i)
            out.append(chr(int(s[i + 3:j], 16)))
            i = j + 1
        elif s.startswith('\\x', i) and i + 3 < len(s) + 1:
            out.append(chr(int(s[i + 2:i + 4], 16)))
            i += 4
        else:
            out.append(s[i])
            i += 1
    return ''.join(out)


class Rebuilder(object):
    def __init__(self, model, st, touched):
        self.m, self.st, self.touched = model, st, touched
        self.memo = {}

    def ev(self, t):
        return self.m.eval(t, model_completion=True)

    def val(self, term, ty, depth=0):
        v = self.ev(term)
        name = v.decl().name()
        if name == 'VNone':
            return None
        if name == 'VBool':
            return z3.is_true(v.arg(0))
        if name == 'VInt':
            return v.arg(0).as_long()
        if name == 'VStr':
            return z3str(v.arg(0))
        if name == 'VBytes':
            return z3str(v.arg(0)).encode('latin-1')
        if name == 'VCls':
            q = front.id_cls(v.arg(0).as_long())
            if q is None:
                raise CannotRebuild('class id %s' % v.arg(0))
            return front.cls_obj(q)
        if name != 'VRef':
            raise CannotRebuild('value %s' % v)
        a = v.arg(0).as_long()
        if a in self.memo:
            return self.memo[a]
        if depth > 8:
            raise CannotRebuild('object graph too deep')
        ty = Ty.strip_opt(ty)
        if isinstance(ty, Ty.TAny) or isinstance(ty, Ty.TUnion):
            k = self.ev(KIND(z3.IntVal(a))).as_long()
            if k == K_LIST:
                ty = Ty.TList(Ty.ANY)
            elif k == K_TUPLE:
                raise CannotRebuild('untyped tuple')
            elif k == K_INST and front.id_cls(self.ev(SP.CLS(z3.IntVal(a))).as_long()):
                ty = Ty.TInst(front.id_cls(self.ev(SP.CLS(z3.IntVal(a))).as_long()))
            else:
                raise CannotRebuild('reference of unknown static type')
        if isinstance(ty, Ty.TInst):
            if ty.cls.startswith('time:'):
                import time as _t
                from .state import GHOSTS
                secs = self.ev(GHOSTS['st_epoch'][0](VRef(z3.IntVal(a)))).as_long()
                obj = _t.gmtime(secs)
                self.memo[a] = obj
                return obj
            cls = front.cls_obj(ty.cls)
            cid = self.ev(SP.CLS(z3.IntVal(a))).as_long() if hasattr(SP, 'CLS') else None
            dyn = front.id_cls(cid) if cid else None
            if dyn and front.is_subclass(dyn, ty.cls):
                cls = front.cls_obj(dyn)
            try:
                obj = cls() if hasattr(cls, 'c_children') else object.__new__(cls)
            except Exception:
                obj = object.__new__(cls)
            self.memo[a] = obj
            q = front.cls_qual(cls)
            names = set(self.touched)
            for k in cls.__mro__:
                kq = front.cls_qual(k)
                if kq in CLASS_DECL:
                    names |= set(CLASS_DECL[kq]['fields'])
            for f in sorted(names):
                ft = field_type(q, f)
                if ft is None:
                    continue
                try:
                    object.__setattr__(obj, f, self.val(self.st.field(f)[z3.IntVal(a)], ft, depth + 1))
                except CannotRebuild:
                    if f in self.touched:
                        raise
            return obj
        if isinstance(ty, (Ty.TList, Ty.TTuple)):
            seq = self.st.L[z3.IntVal(a)]
            n = self.ev(z3.Length(seq)).as_long()
            if n > 16:
                raise CannotRebuild('sequence of length %d' % n)
            lst = []
            if isinstance(ty, Ty.TList):
                self.memo[a] = lst
            for i in range(n):
                et = ty.t if isinstance(ty, Ty.TList) else (ty.ts[i] if i < len(ty.ts) else Ty.ANY)
                lst.append(self.val(seq[i], et, depth + 1))
            if isinstance(ty, Ty.TTuple):
                lst = tuple(lst)
                self.memo[a] = lst
            return lst
        if isinstance(ty, Ty.TDict):
            d = {}
            self.memo[a] = d
            ks = self.ev(self.st.DK[z3.IntVal(a)])
            keys = self.array_true_keys(ks)
            for kterm in keys:
                kv = self.val(kterm, ty.k, depth + 1)
                d[kv] = self.val(self.st.DV[z3.IntVal(a)][kterm], ty.v, depth + 1)
            return d
        raise CannotRebuild('static type %r' % (ty,))

    def array_true_keys(self, arr):
        """keys mapped to true by a model array value built from K / store (default must be false)"""
        keys = []
        cur = arr
        stores = []
        while z3.is_app(cur) and cur.decl().kind() == z3.Z3_OP_STORE:
            stores.append((cur.arg(1), cur.arg(2)))
            cur = cur.arg(0)
        if z3.is_app(cur) and cur.decl().kind() == z3.Z3_OP_CONST_ARRAY:
            if z3.is_true(cur.arg(0)):
                raise CannotRebuild('dict with co-finite key set')
        elif z3.is_app(cur) and cur.decl().kind() == z3.Z3_OP_AS_ARRAY:
            raise CannotRebuild('dict key set given as a function')
        else:
            raise CannotRebuild('dict key set %s' % cur)
        seen = set()
        for k, v in stores:          # outermost store first
            ks = str(k)
            if ks in seen:
                continue
            seen.add(ks)
            if z3.is_true(v):
                keys.append(k)
        return keys


def same(actual, term, ty, rb, st, depth=0):
    """does the native value equal the model's value of `term` (final state st)?"""
    v = rb.ev(term)
    name = v.decl().name()
    if name == 'VNone':
        return actual is None
    if name == 'VBool':
        return isinstance(actual, bool) and actual == z3.is_true(v.arg(0))
    if name == 'VInt':
        return isinstance(actual, int) and not isinstance(actual, bool) and actual == v.arg(0).as_long()
    if name == 'VStr':
        return isinstance(actual, str) and actual == z3str(v.arg(0))
    if name == 'VBytes':
        return isinstance(actual, bytes) and actual == z3str(v.arg(0)).encode('latin-1')
    if name == 'VRef':
        a = v.arg(0).as_long()
        if a in rb.memo:
            return actual is rb.memo[a] or actual == rb.memo[a]
        k = rb.ev(KIND(z3.IntVal(a))).as_long()
        if k in (K_LIST, K_TUPLE) and isinstance(actual, (list, tuple)) and depth < 4:
            seq = st.L[z3.IntVal(a)]
            n = rb.ev(z3.Length(seq)).as_long()
            return n == len(actual) and all(same(actual[i], seq[i], Ty.ANY, rb, st, depth + 1) for i in range(n))
        return actual is not None and not isinstance(actual, (bool, int, str, bytes))
    if name == 'VCls':
        return isinstance(actual, type)
    return False


def install_stubs(calls, rb, patches):
    """every callee replaced by a contract in the proof answers, in order, what the model says it answered"""
    queues = {}
    for rec in calls:
        guards = [x[1] for x in rec[4:] if isinstance(x, tuple) and x and x[0] == 'guard']
        if all(z3.is_true(rb.ev(g)) for g in guards):      # calls of the branches the model did not take are dropped
            queues.setdefault(rec[0], []).append(rec)

    def make(qual, orig):
        def stub(*a, **kw):
            q = queues.get(qual)
            if not q:
                raise Divergence('unexpected extra call of %s' % qual)
            rec = q.pop(0)
            if rec[1] == 'raise':
                cid = rec[3]
                clsq = rec[2]
                if cid is not None:
                    dyn = front.id_cls(rb.ev(cid).as_long())
                    if dyn:
                        clsq = dyn
                exc_cls = front.cls_obj(clsq)
                if not (isinstance(exc_cls, type) and issubclass(exc_cls, BaseException)):
                    # the model picked a class id that is not an exception class (any-exception clause): never instantiate it
                    # (a constructor with side effects once created files named after the message)
                    raise Divergence('model names %s, which is not an exception class, as raised by %s' % (clsq, qual))
                raise exc_cls('replay stub: model says %s raises here' % qual)
            return rb.val(rec[2], rec[3])
        return stub

    for qual in queues:
        modname, path = qual.split(':')
        try:
            mo = importlib.import_module(modname)
        except Exception:
            raise CannotRebuild('cannot import %s for stubbing' % modname)
        parts = path.split('.')
        holder = mo
        for p in parts[:-1]:
            holder = getattr(holder, p)
        orig = holder.__dict__.get(parts[-1]) if isinstance(holder, type) else getattr(holder, parts[-1], None)
        stub = make(qual, orig)
        patches.append((holder, parts[-1], orig, parts[-1] in getattr(holder, '__dict__', {})))
        setattr(holder, parts[-1], stub)
        if not isinstance(holder, type) and orig is not None:
            # names imported by value into package modules
            for mn, m2 in list(sys.modules.items()):
                if mn.startswith(front.PKG) and m2 is not None:
                    for nm, ob in list(vars(m2).items()):
                        if ob is orig:
                            patches.append((m2, nm, orig, True))
                            setattr(m2, nm, stub)
    return queues


def undo(patches):
    for holder, name, orig, had in reversed(patches):
        try:
            if had or not isinstance(holder, type):
                setattr(holder, name, orig)
            else:
                delattr(holder, name)
        except Exception:
            pass


# refutation back ends: the same query under several z3 parameter sets, each in its own forked process doing the whole
# solve -> rebuild -> native replay; the first counter-model wins.  (One parameter set alone is unstable on sequence-heavy
# bounded queries: the same input took 10 s .. >90 s depending on seed / relevancy.)
# 'plain': without the ground instances of string / ghost axioms that normally help -- with string equalities in the path condition
# (e.g. uri == '#' + id) they make z3 time out where the plain query is sat in seconds
REFUTE_CONFIGS = [{}, {'smt.relevancy': 0}, {'smt.relevancy': 0, 'smt.mbqi': False}, {'smt.arith.solver': 2},
                  {'smt.relevancy': 0, 'smt.random_seed': 11}, {'plain': True}, {'plain': True, 'smt.relevancy': 0, 'smt.mbqi': False}]
REFUTE_SECONDS = 90


def refute_and_replay(o, frb, K, pid):
    """-> None when no bounded counter-model was found; else a dict describing model, native run, comparison"""
    import pickle, select, signal
    kids = {}
    for cfg in REFUTE_CONFIGS:
        r, w = os.pipe()
        pid_c = os.fork()
        if pid_c == 0:
            os.close(r)
            code = 0
            try:        # die with the parent (a killed check must not leave solver processes behind)
                import ctypes
                ctypes.CDLL('libc.so.6').prctl(1, 9)
            except Exception:
                pass
            try:
                for k, v in cfg.items():
                    if k != 'plain':
                        z3.set_param(k, v)
                res = _refute_one(o, frb, K, pid, cfg)
                if isinstance(res, dict) and res.get('candidate_model_only') and not res.get('replayed'):
                    res = None      # an unconfirmed candidate model of an `unknown` query is not evidence
                with os.fdopen(w, 'wb') as f:
                    pickle.dump(res, f)
            except BaseException as e:       # noqa
                try:
                    with os.fdopen(w, 'wb') as f:
                        pickle.dump(('error', repr(e)), f)
                except Exception:
                    code = 3
            os._exit(code)
        os.close(w)
        kids[r] = pid_c
    best, deadline = None, time.time() + REFUTE_SECONDS + 15
    open_fds = dict(kids)
    while open_fds and time.time() < deadline:
        ready, _, _ = select.select(list(open_fds), [], [], 1.0)
        for fd in ready:
            data = b''
            while True:
                chunk = os.read(fd, 1 << 16)
                if not chunk:
                    break
                data += chunk
            os.close(fd)
            cp = open_fds.pop(fd)
            try:
                os.waitpid(cp, 0)
            except OSError:
                pass
            try:
                res = pickle.loads(data) if data else None
            except Exception:
                res = None
            if isinstance(res, tuple) and res and res[0] == 'unsat':
                best = None
                open_fds_done = True
                for fd2, cp2 in list(open_fds.items()):
                    _kill(cp2, fd2)
                return None
            if isinstance(res, dict):
                if best is None or (res.get('replayed') and not best.get('replayed')):
                    best = res
                if res.get('replayed'):
                    break
        if best is not None and best.get('replayed'):
            break
        if best is not None and not open_fds:
            break
    for fd2, cp2 in list(open_fds.items()):
        _kill(cp2, fd2)
    return best


def _kill(cp, fd):
    import signal
    try:
        os.kill(cp, signal.SIGKILL)
    except OSError:
        pass
    try:
        os.waitpid(cp, 0)
    except OSError:
        pass
    try:
        os.close(fd)
    except OSError:
        pass


def _refute_one(o, frb, K, pid, cfg):
    fs = list(o.assumptions) + [z3.Not(o.goal)]
    inst = []
    if not cfg.get('plain'):
        for name, gen in solve.BI.AX_INST.items():
            for app in solve.ground_apps(fs, name):
                try:
                    inst.extend(gen(*app.children()))
                except Exception:
                    pass
    s = z3.Solver()
    s.set('timeout', REFUTE_SECONDS * 1000)
    s.add(*inst)
    if not cfg.get('plain'):
        s.add(*[f for _, f in solve.ghost_axiom_instances(fs)])
    s.add(*fs)
    import threading
    wd = threading.Timer(REFUTE_SECONDS + 5.0, z3.main_ctx().interrupt)
    wd.daemon = True
    wd.start()
    try:
        chk = s.check()
    except z3.Z3Exception:
        chk = z3.unknown
    finally:
        wd.cancel()
    if chk == z3.unsat:
        return ('unsat',)
    candidate = False
    if chk != z3.sat:
        # quantified preconditions / axioms make z3 answer `unknown (incomplete quantifiers)` although it holds a candidate
        # model of the ground part; such a candidate is worth a native replay, and ONLY a replayed candidate is reported
        try:
            why = s.reason_unknown()
        except Exception:
            why = ''
        if 'incomplete' not in why:
            return None
        try:
            s.model()
        except z3.Z3Exception:
            return None
        candidate = True
    m = s.model()
    out = {'replayed': False, 'bound_K': K, 'candidate_model_only': candidate, 'path': o.info.get('trace'), 'solver': 'z3 %s %s (refutation mode: integer-range '
           'quantifiers expanded to 0..%d, well-typed pre-state)' % (z3.get_version_string(), cfg or '', K - 1)}
    oc = o.info.get('outcome')
    st0 = frb.old_state
    touched = frb.touched
    rb = Rebuilder(m, st0, touched)
    try:
        args = {}
        for p in frb.params:
            sv = st0.env[p]
            args[p] = rb.val(sv.term, sv.ty)
        out['input'] = {k: _show(v) for k, v in args.items()}
    except CannotRebuild as e:
        out['note'] = 'counter-model found but its input cannot be rebuilt as native objects: %s' % e
        out['model'] = _model_text(m)
        return out
    except Exception as e:
        out['note'] = 'rebuild failed: %r' % (e,)
        out['model'] = _model_text(m)
        return out
    if oc is None:
        out['note'] = ('obligation is not attached to a function exit (%s); input rebuilt, no outcome to compare' % o.kind)
        out['model'] = _model_text(m)
        return out
    patches = []
    try:
        calls = oc.st.notes.get('calls', ())
        queues = install_stubs(calls, rb, patches)
        fn = _real_function(frb.fi)
        pos = [p for p in frb.params if p in args]
        kwargs = {}
        fi_pos, kwonly, defaults, vararg, kwarg = front.func_signature_defaults(frb.fi)
        call_args = [args[p] for p in fi_pos]
        for p in kwonly:
            kwargs[p] = args[p]
        if kwarg and isinstance(args.get(kwarg), dict):
            kwargs.update(args[kwarg])
        try:
            actual = ('return', fn(*call_args, **kwargs))
        except Divergence:
            raise
        except BaseException as e:
            actual = ('raise', e)
    except (CannotRebuild, Divergence) as e:
        undo(patches)
        out['note'] = 'native run diverged from the model: %s' % e
        out['model'] = _model_text(m)
        return out
    finally:
        undo(patches)
    out['native_outcome'] = (actual[0], _show(actual[1]))
    if oc.kind == 'return' and actual[0] == 'return':
        pred = rb.ev(oc.val.term)
        out['predicted_outcome'] = ('return', str(pred))
        out['replayed'] = same(actual[1], oc.val.term, oc.val.ty, rb, oc.st)
    elif oc.kind == 'raise' and actual[0] == 'raise':
        cid = rb.ev(oc.exc.cid_term()).as_long()
        q = front.id_cls(cid)
        out['predicted_outcome'] = ('raise', q)
        out['replayed'] = q is not None and isinstance(actual[1], front.cls_obj(q))
    else:
        out['predicted_outcome'] = (oc.kind, '')
        out['replayed'] = False
    left = {q: len(v) for q, v in queues.items() if v}
    if left:
        out['unconsumed_stub_calls'] = left
    out['clause'] = o.name
    out['what'] = ('the real function, called on the input rebuilt from the counter-model (callees answering as in the '
                   'model), produced the outcome of the refuted path' if out['replayed'] else
                   'the real function did not produce the outcome the counter-model predicts')
    if not out['replayed']:
        if candidate:
            return None     # an unconfirmed candidate model of an `unknown` query is not evidence of anything
        out['model'] = _model_text(m)
    return out


def _real_function(fi):
    mo = importlib.import_module(fi.modname)
    if getattr(fi, 'mutated', False):
        # self-test only (in-memory mutant): the function under replay is the edited text, compiled in the module's own namespace
        # (inside a class statement of the same name when it is a method, so that private-name mangling is the same)
        import ast as _ast, copy as _copy
        node = _copy.deepcopy(fi.node)
        node.decorator_list = []
        if fi.clsname:
            holder = _ast.ClassDef(name=fi.clsname, bases=[], keywords=[], body=[node], decorator_list=[])
            try:
                holder.type_params = []
            except Exception:
                pass
            tree = _ast.Module(body=[holder], type_ignores=[])
        else:
            tree = _ast.Module(body=[node], type_ignores=[])
        _ast.fix_missing_locations(tree)
        ns = {}
        exec(compile(tree, '<mutant of %s>' % fi.qual, 'exec'), mo.__dict__, ns)
        return ns[fi.clsname].__dict__[node.name] if fi.clsname else ns[node.name]
    obj = mo
    for p in fi.qual.split(':')[1].split('.'):
        obj = obj.__dict__[p] if isinstance(obj, type) else getattr(obj, p)
    if isinstance(obj, staticmethod):
        obj = obj.__func__
    return obj


def _show(v, depth=0):
    if isinstance(v, (type(None), bool, int, str, bytes)):
        return repr(v)
    if isinstance(v, BaseException):
        return '%s(%s)' % (type(v).__name__, ', '.join(repr(a)[:200] for a in v.args))
    if depth > 3:
        return '...'
    if isinstance(v, (list, tuple)):
        return '[' + ', '.join(_show(x, depth + 1) for x in v) + ']'
    if isinstance(v, dict):
        return '{' + ', '.join('%s: %s' % (_show(k, depth + 1), _show(x, depth + 1)) for k, x in v.items()) + '}'
    d = {k: x for k, x in getattr(v, '__dict__', {}).items() if x not in (None, [], {}) and not k.startswith('c_')}
    return '%s(%s)' % (type(v).__name__, ', '.join('%s=%s' % (k, _show(x, depth + 1)) for k, x in sorted(d.items())))


def _model_text(m):
    out = {}
    for d in m.decls():
        try:
            out[d.name()] = str(m[d])[:1500]
        except Exception:
            pass
    return out


def run_witness(relpath):
    """stored witness of a known finding: a script that exits 0 iff the defect still reproduces on /repo"""
    if not relpath:
        return False, 'no witness recorded'
    path = os.path.join(HERE, relpath)
    if not os.path.exists(path):
        return False, 'witness file missing'
    py = os.path.join(HERE, '.venv', 'bin', 'python')
    try:
        p = subprocess.run([py, '-W', 'ignore', path], capture_output=True, text=True, timeout=300,
                           env=dict(os.environ, PYVC_REPO=front.REPO))
    except subprocess.TimeoutExpired:
        return False, 'witness timed out'
    return p.returncode == 0, (p.stdout + p.stderr)[-800:]
