"""saml2_tophat.pack / s_utils — binding encoders and decoders (C14, C15)."""
from pyvc.spec import contract, macro

contract('saml2_tophat.s_utils:deflate_and_base64_encode', types={'string_val': 'Union(Str, Bytes)'}, returns='Bytes', pure=True,
         ensures=[('C14-encoding', 'result == vbytes(b64(substr(zcompress(urlpayload(string_val)), 2, '
                                   'len(zcompress(urlpayload(string_val))) - 6)))')],
         modifies=[], clauses_from={'C14': ['C14-encoding']})
contract('saml2_tophat.s_utils:decode_base64_and_inflate', types={'string': 'Union(Str, Bytes)'}, returns='Bytes', pure=True,
         ensures=[('C14-decoding', 'result == vbytes(inflate(unb64(ite(is_bytes(string), str_of(as_type(string, "Bytes")), '
                                   'str_of(as_type(string, "Str"))))))')],
         raises={'ValueError': 'True', 'Exception': 'True'}, modifies=[], clauses_from={'C14': ['C14-decoding']})

Q = '"'
_MSG64 = 'unutf8(b64(utf8(str_of(message))))'
contract('saml2_tophat.pack:http_form_post_message',
         types={'message': 'Str', 'location': 'Str', 'relay_state': 'Opt(Str)', 'typ': 'Str', 'kwargs': 'Dict(Str, Any)'},
         returns='Dict(Str, Any)',
         requires=["typ == 'SAMLRequest' or typ == 'SAMLResponse'"],
         ensures=[  # C14: the message travels as ONE attribute value: value="<html-escaped base64>"
             ('C14-message-is-one-escaped-value',
              "contains(str_of(result['data']), concat('value=' + Q, html_escape(%s), Q))" % _MSG64),
             ('C14-relay-state-is-one-escaped-value',
              "implies(truthy(relay_state), contains(str_of(result['data']), "
              "concat('name=' + Q + 'RelayState' + Q + ' value=' + Q, html_escape(str_of(relay_state)), Q)))"),
             ('fresh-result', 'fresh(result)')],
         lets={'Q': "'\\x22'"},
         raises={'UnicodeDecodeError': 'True'}, modifies=[],
         clauses_from={'C14': ['C14-message-is-one-escaped-value', 'C14-relay-state-is-one-escaped-value']})

# ------------------------------------------------------------------------------------------------ HTTP-Redirect
from pyvc.state import ghost
ghost('has_query', ['Val'], 'Bool')     # urlparse(location).query is non-empty
from pyvc.state import declare_class
declare_class('urllib.parse:ParseResult', fields={'query': 'Str'})
contract('urllib.parse:urlparse', trusted=True, pure=True, params=['url'], returns="Inst('urllib.parse:ParseResult')",
         ensures=['truthy(result.query) == has_query(url)'], assumptions=['E-URL'])

RSg = "Opt(Inst('saml2_tophat.sigver:RSASigner'))"
_DEFL = 'b64(substr(zcompress(utf8(str_of(message))), 2, len(zcompress(utf8(str_of(message)))) - 6))'
_variants = {}
for _typ in ('SAMLRequest', 'SAMLResponse'):
    _q1 = "urlenc1('%s', %s)" % (_typ, _DEFL)
    _rs = "str_of(ite(truthy(relay_state), vstr(concat('&', urlenc1('RelayState', utf8(str_of(relay_state))))), vstr('')))"
    _signed = "concat(%s, %s, concat('&', urlenc1('SigAlg', utf8(str_of(sigalg)))))" % (_q1, _rs)
    _sigv = "b64(bytes_of(rsa_sign(signer.key, vbytes(utf8(%s)), signer.digest)))" % _signed
    _vq = 'saml2_tophat.pack:http_redirect_message[%s]' % _typ
    _variants[('typ', _typ)] = _vq
    contract(_vq, variant_of='saml2_tophat.pack:http_redirect_message', consts={'typ': _typ},
             types={'message': 'Str', 'location': 'Str', 'relay_state': 'Opt(Str)', 'sigalg': 'Opt(Str)', 'signer': RSg,
                    'kwargs': 'Dict(Str, Any)'},
             returns='Dict(Str, Any)',
             lets={'GLUE': "ite(has_query(location), '&', '?')"},
             ensures=[
                 ('fresh', 'fresh(result)'),
                 # C14: Location = destination + glue + urlencoded parameters, every parameter one k=v pair
                 ('C14-unsigned-location',
                  "implies(not truthy(signer), str_of(result['headers'][0][1]) == "
                  "concat(str_of(location), GLUE, %s, %s))" % (_q1, _rs)),
                 # C15: the signed octet string is SAMLRequest|SAMLResponse, RelayState?, SigAlg -- and the signature is made
                 # with the signer's own key over exactly that string
                 ('C15-signed-location',
                  "implies(truthy(signer), str_of(result['headers'][0][1]) == "
                  "concat(str_of(location), GLUE, %s, concat('&', urlenc1('Signature', %s))))" % (_signed, _sigv))],
             raises={'AssertionError': 'truthy(signer)', 'Exception': 'truthy(signer)', 'AttributeError': 'True', 'TypeError': 'True'},
             modifies=[],
             clauses_from={'C14': ['C14-unsigned-location'], 'C15': ['C15-signed-location']})
contract('saml2_tophat.pack:http_redirect_message', trusted=True, variants=_variants,
         note='dispatch stub for the constant message-type variants')

# ------------------------------------------------------------------------------------------------ HTTP-POST without a form (C14)
_pm_variants = {}
for _typ in ('SAMLRequest', 'SAMLResponse'):
    _vq = 'saml2_tophat.pack:http_post_message[%s]' % _typ
    _pm_variants[('typ', _typ)] = _vq
    contract(_vq, variant_of='saml2_tophat.pack:http_post_message', consts={'typ': _typ},
             types={'message': 'Str', 'relay_state': 'Opt(Str)', 'kwargs': 'Dict(Str, Any)'}, returns='Dict(Str, Any)',
             ensures=[('fresh', 'fresh(result)'),
                      # C14: the body is one urlencoded k=v pair per parameter: the base64 of the message, then the RelayState
                      ('C14-body-is-urlencoded-pairs',
                       "str_of(result['data']) == concat(urlenc1('%s', utf8(unutf8(b64(utf8(str_of(message)))))), "
                       "str_of(ite(truthy(relay_state), vstr(concat('&', urlenc1('RelayState', utf8(str_of(relay_state))))), vstr(''))))" % _typ)],
             raises={'Exception': 'True'}, modifies=[], clauses_from={'C14': ['C14-body-is-urlencoded-pairs']})
contract('saml2_tophat.pack:http_post_message', trusted=True, variants=_pm_variants, params=['message', 'relay_state', 'typ'],
         defaults={'relay_state': '', 'typ': 'SAMLRequest'}, returns='Dict(Str, Any)',
         note='dispatch stub for the constant message-type variants')
