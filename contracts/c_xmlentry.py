"""C11: the XML entry points.  A parsed object / extracted message is only ever produced from an element tree that the HARDENED
parser (defusedxml) accepted for the very text that was received.  What the hardened parser guarantees (no entity declared,
nothing external read, well-formed to the end of the document) is E-DEFUSED; the stdlib parser has a contract WITHOUT that
guarantee, so that code which falls back to it fails the postcondition instead of leaving the verified subset."""
from pyvc.spec import contract, macro
from pyvc.state import declare_class, ghost

ghost('safe_tree', ['Val', 'Val'], 'Bool')      # (tree, text): tree is what the hardened parser returned for exactly this text
ghost('harvested', ['Val', 'Val'], 'Bool')      # (object, tree): the object was populated from this tree
EL = "Inst('xml.etree.ElementTree:Element')"
declare_class('xml.etree.ElementTree:Element', fields={'tag': 'Str', 'text': 'Opt(Str)', 'tail': 'Opt(Str)', 'attrib': 'Dict(Str, Str)'})
contract('defusedxml.ElementTree:fromstring', trusted=True, modifies=[], params=['text', 'forbid_dtd', 'forbid_entities', 'forbid_external'],
         defaults={'forbid_dtd': False, 'forbid_entities': True, 'forbid_external': True}, returns=EL,
         ensures=['implies(truthy(forbid_entities) and truthy(forbid_external), safe_tree(result, text))', 'fresh(result)'],
         raises={'Exception': 'True'}, assumptions=['E-DEFUSED'],
         note='E-DEFUSED: raises on entity declarations / external references / ill-formed or truncated text; otherwise the tree of the text')
contract('xml.etree.ElementTree:fromstring', trusted=True, modifies=[], params=['text', 'parser'], defaults={'parser': None}, returns=EL,
         ensures=['fresh(result)'], raises={'Exception': 'True'},
         note='the standard-library parser: NO guarantee about entities (deliberately: a fall-back to it must fail C11)')
contract('saml2_tophat:create_class_from_element_tree', trusted=True, modifies=[], params=['target_class', 'tree', 'namespace', 'tag'],
         defaults={'namespace': None, 'tag': None}, returns="Opt(Inst('saml2_tophat:SamlBase'))",
         ensures=['implies(result is not None, harvested(result, tree) and fresh(result))'], raises={'Exception': 'True'},
         assumptions=['E-PARSE'], note='ASSUMED: generic harvesting of an element tree into schema objects (reflection); None when the root tag does not match')
_DOC = 'ite(is_bytes(xml_string), xml_string, vbytes(utf8(str_of(xml_string))))'
contract('saml2_tophat:create_class_from_xml_string', types={'target_class': 'Any', 'xml_string': 'Union(Str, Bytes)'},
         returns="Opt(Inst('saml2_tophat:SamlBase'))",
         ensures=[('C11-only-from-a-tree-of-the-hardened-parser',
                   'implies(result is not None, exists(lambda t: safe_tree(t, %s) and harvested(result, t), "Val"))' % _DOC)],
         raises={'Exception': 'True'}, modifies=[], clauses_from={'C11': ['C11-only-from-a-tree-of-the-hardened-parser']})

contract('saml2_tophat:_extension_element_from_element_tree', trusted=True, modifies=[], params=['element_tree'],
         returns="Inst('saml2_tophat:ExtensionElement')", ensures=['harvested(result, element_tree)', 'fresh(result)'],
         raises={'Exception': 'True'}, assumptions=['E-PARSE'], note='ASSUMED: recursive copy of an element tree into ExtensionElement objects')
contract('saml2_tophat:extension_element_from_string', types={'xml_string': 'Union(Str, Bytes)'},
         returns="Inst('saml2_tophat:ExtensionElement')",
         ensures=[('C11-only-from-a-tree-of-the-hardened-parser', 'exists(lambda t: safe_tree(t, xml_string) and harvested(result, t), "Val")')],
         raises={'Exception': 'True'}, modifies=[], clauses_from={'C11': ['C11-only-from-a-tree-of-the-hardened-parser']})

# ---- SOAP envelopes: ElementTree elements are sequences of their children
ghost('et_children', ['Val'], 'Seq')
declare_class('xml.etree.ElementTree:Element', seq='et_children', elem=EL)
ghost('part_of', ['Val', 'Val'], 'Bool')        # (element, tree): the element is a node of the tree
ghost('et_text', ['Val'], 'Val')                # ElementTree.tostring(element)
from pyvc.state import axiom
axiom('et_children', 'E-ET-children', "forall(lambda t, k: implies(0 <= k and k < len(et_children(t)), part_of(et_children(t)[k], t)), ['Val', 'Int'])",
      modname='saml2_tophat.soap')
axiom('part_of', 'E-ET-part-trans', "forall(lambda a, b, c: implies(part_of(a, b) and part_of(b, c), part_of(a, c)), ['Val', 'Val', 'Val'])", modname='saml2_tophat.soap')
contract('xml.etree.ElementTree:tostring', trusted=True, pure=True, params=['element', 'encoding', 'method'],
         defaults={'encoding': None, 'method': None}, returns='Bytes', ensures=['result == et_text(element)'], assumptions=['E-ET'])
_FROM = 'exists(lambda t, e: safe_tree(t, text) and part_of(e, t) and result == et_text(e), ["Val", "Val"])'
contract('saml2_tophat.soap:parse_soap_enveloped_saml_thingy', types={'text': 'Union(Str, Bytes)', 'expected_tags': 'List(Str)'},
         returns='Union(Str, Bytes)',
         ensures=[# C11: a message is only ever cut out of an envelope that the hardened parser accepted to its end
                  ('C11-only-from-a-tree-of-the-hardened-parser', "implies(result != '', %s)" % _FROM)],
         raises={'Exception': 'True'}, modifies=[], loops={0: {'inv': [], 'modifies': []}},
         clauses_from={'C11': ['C11-only-from-a-tree-of-the-hardened-parser']})
