"""saml2_tophat.ident — name identifier encoding and the IdP's identifier database (C18)."""
from pyvc.spec import contract, macro
from pyvc.state import declare_class

NID = "Inst('saml2_tophat.saml:NameID')"
IDB = 'saml2_tophat.ident:IdentDB'
declare_class(IDB, fields={'db': 'Dict(Str, Str)', 'domain': 'Str', 'name_qualifier': 'Any'})

# the documented encoding: for each field (in ATTR order) that has a value, "<index>=<quote(value)>", joined by ","
_F = ['name_qualifier', 'sp_name_qualifier', 'format', 'sp_provided_id', 'text']


def _code_spec():
    parts = []
    for i, f in enumerate(_F):
        anyprev = ' or '.join('truthy(item.%s)' % g for g in _F[:i]) or 'False'
        parts.append("str_of(ite(truthy(item.%s), vstr(concat(str_of(ite(%s, vstr(','), vstr(''))), '%d=', quote(str_of(item.%s)))), vstr('')))"
                     % (f, anyprev, i, f))
    return 'concat(%s)' % ', '.join(parts)


contract('saml2_tophat.ident:code', types={'item': NID}, returns='Str', pure=True, trusted=False,
         ensures=[('C18-encoding', 'str_of(result) == %s' % _code_spec()),
                  ],
         defines=['result == code_of(item)'],      # names the key for the cache contracts (C19)
         modifies=[], clauses_from={'C18': ['C18-encoding']})

# (ident.decode: assumed contract in c_cache.py -- fresh NameID; the bounded stand-in ident_history checks decode(code(n)) == n natively)

contract(IDB + '.find_local_id', types={'name_id': NID}, returns='Opt(Str)', pure=True,
         ensures=[('C18-lookup', 'implies(name_id.text is not None and has_key(self.db, name_id.text), result == self.db[name_id.text])'),
                  ('C18-unknown', 'implies(name_id.text is not None and not has_key(self.db, name_id.text), result is None)')],
         modifies=[], clauses_from={'C18': ['C18-lookup', 'C18-unknown']})

contract(IDB + '.store', types={'ident': 'Str', 'name_id': NID},
         requires=['is_str(name_id.text)', 'name_id.text != ident'],
         ensures=[# C18: afterwards the identifier resolves back to exactly this user ...
                  ('C18-reverse-entry', 'has_key(self.db, name_id.text) and self.db[name_id.text] == ident'),
                  # ... the user's list gains exactly this identifier's code ...
                  ('C18-forward-entry', "has_key(self.db, ident) and suffixof(str_of(code_of(name_id)), str_of(self.db[ident]))"),
                  ('C18-forward-entry-extends', "implies(old(has_key(self.db, ident)), "
                                                "str_of(self.db[ident]) == concat(str_of(old(self.db[ident])), ' ', str_of(code_of(name_id))))"),
                  # ... and nobody else's entries change
                  ('C18-others-untouched', 'forall(lambda k: implies(k != ident and k != name_id.text, '
                                           'has_key(self.db, k) == old(has_key(self.db, k)) and valmap(self.db)[k] == old(valmap(self.db))[k]), "Val")')],
         raises={}, modifies=['dict(self.db)'], local_types={'val': 'List(Str)'},
         clauses_from={'C18': ['C18-reverse-entry', 'C18-forward-entry', 'C18-forward-entry-extends', 'C18-others-untouched']})

contract(IDB + '.remove_local', types={'sid': 'Union(Str, Bytes)'},
         ensures=[# C18: removal of a local user never fails (it used to raise NameError) and forgets the user ...
                  ('C18-user-forgotten', 'implies(is_str(sid), not has_key(self.db, sid))'),
                  # ... touching only keys that are texts of identifiers recorded for that user
                  ('C18-only-removes', 'forall(lambda k: implies(has_key(self.db, k), old(has_key(self.db, k)) and '
                                       'valmap(self.db)[k] == old(valmap(self.db))[k]), "Val")')],
         raises={'UnicodeDecodeError': 'is_bytes(sid)'},
         modifies=['dict(self.db)'],
         loops={0: {'inv': ['forall(lambda k: implies(has_key(self.db, k), old(has_key(self.db, k)) and '
                            'valmap(self.db)[k] == old(valmap(self.db))[k]), "Val")'],
                    'modifies': ['dict(self.db)']}},
         clauses_from={'C18': ['C18-user-forgotten', 'C18-only-removes', 'raises']})

contract(IDB + '.remove_remote', types={'name_id': NID},
         requires=['is_str(name_id.text)'],
         ensures=[# C18: a withdrawn identifier no longer resolves ...
                  ('C18-reverse-entry-removed', 'not has_key(self.db, name_id.text)'),
                  # ... and only the identifier's own entry and its user's list change
                  ('C18-others-untouched', 'forall(lambda k: implies(k != name_id.text and k != old(self.db[name_id.text]), '
                                           'has_key(self.db, k) == old(has_key(self.db, k)) and valmap(self.db)[k] == old(valmap(self.db))[k]), "Val")')],
         raises={'KeyError': 'not has_key(self.db, name_id.text)', 'ValueError': 'True'},
         modifies=['dict(self.db)'], local_types={'vals': 'List(Str)'},
         clauses_from={'C18': ['C18-reverse-entry-removed', 'C18-others-untouched']})

contract('copy:copy', trusted=True, params=['x'], returns=NID,
         ensures=['fresh(result)', 'result.text == x.text', 'result.sp_provided_id == x.sp_provided_id', 'result.format == x.format',
                  'result.name_qualifier == x.name_qualifier', 'result.sp_name_qualifier == x.sp_name_qualifier'],
         assumptions=['A-PY'], note='shallow copy of a NameID: a new object with the same field values')
contract(IDB + '.handle_manage_name_id_request',
         types={'name_id': NID, 'new_id': "Opt(Inst('saml2_tophat.samlp:NewID'))", 'new_encrypted_id': 'Any', 'terminate': 'Any'},
         returns=NID,
         requires=['is_str(name_id.text)', 'has_key(self.db, name_id.text)', 'self.db[name_id.text] != name_id.text'],
         ensures=[# C18: after NewID / Terminate the (still issued) identifier resolves to exactly the user it was issued for
                  ('C18-still-resolves-to-same-user', 'has_key(self.db, name_id.text) and self.db[name_id.text] == old(self.db[name_id.text])'),
                  ('C18-no-one-else-affected', 'forall(lambda k: implies(k != name_id.text and k != old(self.db[name_id.text]), '
                                               'has_key(self.db, k) == old(has_key(self.db, k)) and valmap(self.db)[k] == old(valmap(self.db))[k]), "Val")'),
                  ('same-object', 'result == name_id')],
         raises={'ValueError': 'True'},
         modifies=['dict(self.db)', 'name_id.sp_provided_id'],
         clauses_from={'C18': ['C18-still-resolves-to-same-user', 'C18-no-one-else-affected']})

# ---- issuing (C18: "each newly issued identifier is fresh", "resolves to exactly the user it was issued for")
from pyvc.state import ghost
ghost('random_id', ['Val'], 'Bool')     # E-RAND: the text is an output of the random identifier generator (64 hex digits of a SHA-256)
contract(IDB + '._create_id', trusted=True, pure=True, params=['self', 'nformat', 'name_qualifier', 'sp_name_qualifier'],
         defaults={'name_qualifier': '', 'sp_name_qualifier': ''}, returns='Str',
         ensures=['random_id(result)', 'len(str_of(result)) == 64'], raises={'AttributeError': 'True', 'TypeError': 'True'},
         assumptions=['E-RAND'], note='sha256 over 32 random bytes and the qualifiers')
contract(IDB + '.create_id', types={'nformat': 'Any', 'name_qualifier': 'Any', 'sp_name_qualifier': 'Any'}, returns='Str',
         ensures=[('C18-fresh', 'not has_key(self.db, result)'), ('random', 'random_id(result)')],
         raises={'AttributeError': 'True', 'TypeError': 'True'}, modifies=[],
         loops={0: {'inv': ['is_str(_id) and random_id(_id)'], 'modifies': []}},
         local_types={'_id': 'Str'}, clauses_from={'C18': ['C18-fresh']},
         note='termination of the retry loop is not verified')
_EMAIL = 'urn:oasis:names:tc:SAML:1.1:nameid-format:emailAddress'
contract(IDB + '.get_nameid', types={'userid': 'Str', 'nformat': 'Str', 'sp_name_qualifier': 'Opt(Str)', 'name_qualifier': 'Opt(Str)'},
         returns=NID,
         requires=['not random_id(userid)',       # E-RAND: a local user name is not an output of the identifier generator
                   # ... nor such an output followed by "@<domain>" (the e-mail form)
                   'forall(lambda t: implies(random_id(t) and is_str(t), str_of(userid) != concat(str_of(t), "@", str_of(self.domain))), "Val")',
                   'is_str(self.domain)'],
         ensures=[('C18-issued-identifier-is-fresh', 'implies(nformat != %r, forall(lambda k: implies(k == result.text, not old(has_key(self.db, k))), "Val"))' % _EMAIL),
                  ('C18-resolves-to-its-user', 'has_key(self.db, result.text) and self.db[result.text] == userid'),
                  ('C18-qualifiers-as-asked', 'result.format == nformat and result.sp_name_qualifier == sp_name_qualifier and '
                                              'result.name_qualifier == name_qualifier and fresh(result)'),
                  ('C18-others-untouched', 'forall(lambda k: implies(k != userid and k != result.text, '
                                           'has_key(self.db, k) == old(has_key(self.db, k)) and valmap(self.db)[k] == old(valmap(self.db))[k]), "Val")')],
         raises={'SAMLError': 'nformat == %r and not truthy(self.domain)' % _EMAIL, 'AttributeError': 'True', 'TypeError': 'True'},
         modifies=['dict(self.db)'],
         clauses_from={'C18': ['C18-issued-identifier-is-fresh', 'C18-resolves-to-its-user', 'C18-qualifiers-as-asked', 'C18-others-untouched']})
