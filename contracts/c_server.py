"""saml2_tophat.server / assertion — what an IdP releases (C07)."""
from pyvc.spec import contract, macro
from pyvc.state import declare_class, ghost

SRV = 'saml2_tophat.server:Server'
AST = 'saml2_tophat.assertion:Assertion'
POL = 'saml2_tophat.assertion:Policy'
declare_class(AST, fields={'acs': 'Any'})
declare_class(POL, fields={'acs': 'Any', '_restrictions': 'Opt(Dict(Str, Dict(Str, Any)))'})
declare_class(SRV, fields={})

# C07: "the attribute set of this Assertion object is the identity narrowed by the release policy for that SP"
# (established by apply_policy's normal return, required by construct, invalidated by nothing else)
ghost('FILTERED', ['KeySet', 'KeyMap', 'Val', 'Val'], 'Bool')   # (keys, values, policy, sp_entity_id)
macro('IS_FILTERED', ['a', 'p', 'sp'], 'FILTERED(keyset(a), valmap(a), p, sp)')

contract(AST + '.__init__', trusted=True, params=['self', 'dic'], defaults={'dic': None}, types={'dic': 'Dict(Str, Any)'},
         ensures=['keyset(self) == keyset(dic)', 'valmap(self) == valmap(dic)'], modifies=['dict(self)', 'self.acs'],
         assumptions=['A-PY'], note='dict.__init__(self, dic): the new mapping has the contents of dic')
contract(POL + '.__init__', trusted=True, params=['self', 'restrictions'], defaults={'restrictions': None},
         ensures=['implies(not truthy(restrictions), self._restrictions is None)',
                  'self._restrictions is None or forall(lambda k: implies(has_key(self._restrictions, k), typed(self._restrictions[k], "Dict(Str, Any)")), "Val")'],
         modifies=['self.acs', 'self._restrictions'], assumptions=['A-PY'],
         note='ASSUMED: without restrictions the table is None; with restrictions it is a deep copy of the configured table '
              '(entity id -> settings), patterns compiled')
# (Config.getattr: contract in c_entity.py)

# (Assertion.apply_policy: verified contract in c_zpolicy.py)

contract(AST + '.construct', trusted=True,
         params=['self', 'sp_entity_id', 'attrconvs', 'policy', 'issuer', 'farg', 'authn_class', 'authn_auth', 'authn_decl',
                 'encrypt', 'sec_context', 'authn_decl_ref', 'authn_instant', 'subject_locality', 'authn_statem', 'name_id',
                 'session_not_on_or_after'],
         defaults=dict(authn_class=None, authn_auth=None, authn_decl=None, encrypt=None, sec_context=None, authn_decl_ref=None,
                       authn_instant='', subject_locality='', authn_statem=None, name_id=None, session_not_on_or_after=None),
         requires=[('C07-only-filtered-identity-is-asserted', 'IS_FILTERED(self, policy, sp_entity_id)')],
         pure=True, note='builds the saml.Assertion from the attribute set held by the object: what is in the object is released')

contract('saml2_tophat.entity:Entity.create_error_response', trusted=True, pure=True,
         params=['self', 'in_response_to', 'destination', 'info', 'sign', 'issuer', 'sign_alg', 'digest_alg', 'kwargs'],
         defaults=dict(sign=False, issuer=None, sign_alg=None, digest_alg=None, kwargs=None), returns='Any',
         ensures=['is_error_response(result)'], note='error response: carries no assertion')
ghost('is_error_response', ['Val'], 'Bool')
contract(SRV + '.update_farg', trusted=True, pure=True, params=['in_response_to', 'consumer_url', 'farg'],
         defaults={'farg': None}, returns='Dict(Str, Any)',
         ensures=["'assertion' in result"], assumptions=['A-PY'])

contract(SRV + '.setup_assertion',
         types={'authn': 'NoneT', 'authn_statement': 'NoneT', 'identity': 'Dict(Str, Any)', 'policy': "Opt(Inst('%s'))" % POL,
                'best_effort': 'Any', 'kwargs': 'Dict(Str, Any)', 'farg': 'Any', 'sp_entity_id': 'Str'},
         requires=['policy is not None',
                   'policy._restrictions is None or forall(lambda k: implies(has_key(policy._restrictions, k), typed(policy._restrictions[k], "Dict(Str, Any)")), "Val")'],
         hints={('keys', 'kwargs'): []},
         ensures=[('C07-error-when-requirements-unmet-and-not-best-effort', 'True')],
         raises={'KeyError': 'True', 'AttributeError': 'True', 'TypeError': 'True', 'Exception': 'True'},
         modifies=['policy.acs'],
         clauses_from={'C07': ['C07-only-filtered-identity-is-asserted']},
         note='verified for the call shape authn=None, authn_statement=None (the three construct() call sites pass the same '
              'object, policy and SP; the other two build keyword arguments with dict comprehensions outside the subset)')


