"""Sidecar contracts.  Importing this package registers every contract, class declaration and ghost."""
from pyvc.spec import contract, macro
from pyvc.state import declare_class, ghost, axiom
from pyvc.execexpr import global_object, order_key
import importlib, pkgutil, os
for _m in sorted(m.name for m in pkgutil.iter_modules([os.path.dirname(__file__)])):
    importlib.import_module('contracts.' + _m)
