"""saml2_tophat.sigver — signature checking and the external tool (C01, C03, C10, C15, C20)."""
from pyvc.spec import contract
from pyvc.state import ghost

ghost('splitlines', ['Str'], 'Seq')
OKLINE = ("exists(lambda k: splitlines(output)[k] == 'OK' and "
          "forall(lambda j: splitlines(output)[j] != 'OK' and splitlines(output)[j] != 'FAIL', 0, k), "
          "0, len(splitlines(output)))")

contract('saml2_tophat.sigver:parse_xmlsec_output',
         types={'output': 'Str'}, returns='Bool',
         ensures=[('true', 'result is True'), ('C20-okline', OKLINE)],
         raises={'XmlsecError': 'not (%s)' % OKLINE},
         modifies=[],
         loops={0: {'inv': ["forall(lambda j: seq0[j] != 'OK' and seq0[j] != 'FAIL', 0, i0)"]}},
         clauses_from={'C20': ['C20-okline', 'true']})
