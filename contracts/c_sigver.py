"""saml2_tophat.sigver — signature checking and the external tool (C01, C03, C10, C15, C20)."""
from pyvc.spec import contract, macro
from pyvc.state import ghost

ghost('splitlines', ['Str'], 'Seq')
# the document the tool sees: bytes as given, text as its UTF-8 encoding
macro('DOC', ['x'], 'ite(is_bytes(x), x, as_type(vbytes(utf8(str_of(x))), "Bytes"))')
OKLINE = ("exists(lambda k: splitlines(output)[k] == 'OK' and "
          "forall(lambda j: splitlines(output)[j] != 'OK' and splitlines(output)[j] != 'FAIL', 0, k), "
          "0, len(splitlines(output)))")

contract('saml2_tophat.sigver:parse_xmlsec_output',
         types={'output': 'Str'}, returns='Bool',
         ensures=[('true', 'result is True'), ('C20-okline', OKLINE)],
         raises={'XmlsecError': 'not (%s)' % OKLINE},
         modifies=[],
         loops={0: {'inv': ["forall(lambda j: seq0[j] != 'OK' and seq0[j] != 'FAIL', 0, i0)"]}},
         clauses_from={'C20': ['C20-okline', 'true']})

# ------------------------------------------------------------------------------------------------
# Ghost facts about a received document (E-PARSE: parsing is a deterministic function of the text)
ghost('is_resp', ['Val'], 'Bool')       # the text parses as some samlp response element
ghost('RP', ['Val'], 'Bool')            # ... and that element carries a ds:Signature child
ghost('RV', ['Val', 'Val'], 'Bool')     # RV(sec, text): the response-level signature passes _check_signature in context sec
ghost('schema_valid', ['Val'], 'Bool')  # validate.valid_instance accepts the object

SRT = "Inst('saml2_tophat.samlp:StatusResponseType_')"
SC = 'saml2_tophat.sigver:SecurityContext'

contract('saml2_tophat.samlp:any_response_from_string', trusted=True, params=['xmlstr'], returns='Opt(%s)' % SRT,
         ensures=['(result is not None) == is_resp(xmlstr)',
                  'implies(result is not None, truthy(result.signature) == RP(xmlstr))',
                  'implies(result is not None, fresh(result))'],
         raises={'Exception': 'True'}, assumptions=['E-PARSE', 'E-DEFUSED'])

contract('saml2_tophat.validate:valid_instance', trusted=False, pure=True, params=['instance'], returns='Bool',
         ensures=['result is True', 'schema_valid(instance)'],
         raises={'NotValid': 'not schema_valid(instance)', 'ValueError': 'not schema_valid(instance)',
                 'KeyError': 'not schema_valid(instance)', 'AttributeError': 'not schema_valid(instance)',
                 'TypeError': 'not schema_valid(instance)'},
         note='abstract contract used by callers: schema_valid is DEFINED as "valid_instance returns normally"; what that '
              'implies about the object is the subject of C13 (per-class contracts generated from the tables)')


# ================================================================================================ C01 / C03 / C10 / C20
# E-XMLSEC: what the external tool establishes when it reports OK for
#   xmlsec1 --verify --enabled-reference-uris empty,same-doc --pubkey-cert-pem <certfile> --id-attr:ID <node_name>
#           --node-id <node_id> <doc>
ghost('XS_OK', ['Val', 'Val', 'Val', 'Val'], 'Bool')    # (doc, node_name, node_id, certfile)
ghost('tmpfile', ['Val'], 'Val')        # name of the temporary file make_temp creates for given content
ghost('pem', ['Val'], 'Val')            # PEM armour of a base64 certificate body (pem_format)
ghost('md_certs', ['Val', 'Val'], 'Seq')    # signing certificates the metadata store holds for an entity id
ghost('md_enc_certs', ['Val', 'Val'], 'Seq')    # encryption certificates ... (C16)
ghost('inst_certs', ['Val'], 'Seq')     # certificates embedded in the KeyInfo of an element's own Signature
ghost('cert_ok', ['Val', 'Val'], 'Bool')    # CertHandler.verify_cert accepts the certificate file

contract('saml2_tophat.sigver:pem_format', trusted=True, pure=True, params=['key'], types={'key': 'Str'}, returns='Bytes',
         ensures=['result == pem(key)'], assumptions=['A-STR'], note='string armour; repository code, 4 lines')
contract('saml2_tophat.sigver:make_temp', trusted=True, pure=True, params=['string', 'suffix', 'decode', 'delete'],
         defaults={'suffix': '', 'decode': True, 'delete': True}, returns='Tuple(Any, Str)',
         ensures=['implies(not truthy(decode), result[1] == tmpfile(string))', 'truthy(result[1])'], assumptions=['E-TMPFILE'])
contract('saml2_tophat.sigver:cert_from_instance', trusted=False, pure=True, params=['instance'], returns='List(Str)',
         ensures=['seq(result) == inst_certs(instance)'], modifies=[])
contract('saml2_tophat.mdstore:MetaData.certs', trusted=False, pure=True, returns='List(Str)',
         types={'entity_id': 'Opt(Str)', 'descriptor': 'Str', 'use': 'Str'},
         ensures=["implies(descriptor == 'any' and use == 'signing', seq(result) == md_certs(self, entity_id))",
                  "implies(descriptor == 'any' and use == 'encryption', seq(result) == md_enc_certs(self, entity_id))"],
         raises={'KeyError': "implies(use == 'signing', len(md_certs(self, entity_id)) == 0)"}, modifies=[])
contract('saml2_tophat.sigver:CertHandler.verify_cert', trusted=False, pure=True, returns='Bool',
         types={'cert_file': 'Any'}, ensures=['truthy(result) == cert_ok(self, cert_file)'],
         raises={'Exception': 'True'}, modifies=[])
contract(SC + '.verify_signature', pure=True,
         types={'signedtext': 'Union(Str, Bytes)', 'cert_file': 'Opt(Str)', 'cert_type': 'Str', 'node_name': 'Str',
                'node_id': 'Opt(Str)', 'id_attr': 'Str'},
         returns='Bool',
         requires=['truthy(cert_file) or truthy(self.cert_file)'],
         ensures=[('true', 'result is True'),
                  ('C20-ok-means-verified', 'XS_OK(DOC(signedtext), node_name, ite(truthy(node_id), node_id, None), '
                                            'ite(truthy(cert_file), cert_file, self.cert_file))')],
         raises={'XmlsecError': 'True', 'OSError': 'True', 'UnicodeDecodeError': 'True'}, modifies=[],
         clauses_from={'C20': ['C20-ok-means-verified']})

_ISS = ("ite(item.issuer is not None and item.issuer.text is not None, vstr(strip(item.issuer.text)), "
        "ite(issuer is not None and issuer.text is not None, vstr(strip(issuer.text)), None))")
_USED = ("(truthy(self.metadata) and len(md_certs(self.metadata, ISS)) > 0 and k < len(md_certs(self.metadata, ISS)) "
         " and XS_OK(DOC(decoded_xml), node_name, item.id, tmpfile(pem(md_certs(self.metadata, ISS)[k])))) or "
         "(not (truthy(self.metadata) and len(md_certs(self.metadata, ISS)) > 0) and not truthy(self.only_use_keys_in_metadata) "
         " and k < len(inst_certs(item)) and XS_OK(DOC(decoded_xml), node_name, item.id, tmpfile(pem(inst_certs(item)[k]))))")
# ENVELOPED (C01, atoms A2, A3, A5), a fact about the DOCUMENT that is handed to the tool: exactly one element carries the ID, it has
# exactly one ds:Signature child, and no other ds:Signature precedes that child inside the element -- so the first signature the
# tool meets when it starts at that element (E-XMLSEC) is the element's own.  The helper that computes it walks an ElementTree
# (iter(), comprehensions over elements, next()): outside the verified subset, its contract is ASSUMED and bounded/wrap_table
# compares it with an independent implementation on every generated document and ID.
ghost('ENVELOPED', ['Val', 'Val', 'Val'], 'Bool')
contract('saml2_tophat.sigver:signature_is_enveloped', trusted=True, params=['xml', 'node_id', 'id_attr'], defaults={'id_attr': 'ID'},
         returns='Bool', ensures=['vb(result) == ENVELOPED(DOC(xml), node_id, id_attr)'], raises={'Exception': 'True'}, modifies=[],
         assumptions=['E-ET', 'E-DEFUSED'],
         note='ASSUMED (ElementTree walk); cross-checked by bounded/wrap_table against an independent implementation')
contract(SC + '._check_signature',
         types={'decoded_xml': 'Union(Str, Bytes)', 'item': "Inst('saml2_tophat:SamlBase')", 'node_name': 'Str', 'origdoc': 'Any',
                'id_attr': 'Str', 'must': 'Any', 'only_valid_cert': 'Any',
                'issuer': "Opt(Inst('saml2_tophat.saml:Issuer'))"},
         returns="Inst('saml2_tophat:SamlBase')",
         requires=["isinstance(item, 'saml2_tophat.saml:AssertionType_') or isinstance(item, 'saml2_tophat.samlp:RequestAbstractType_') "
                   "or isinstance(item, 'saml2_tophat.samlp:StatusResponseType_')"],
         lets={'ISS': _ISS},
         local_types={'certs': 'List(Tuple(Any, Str))', '_certs': 'List(Str)', 'last_pem_file': 'Opt(Str)'},
         ensures=[('same-item', 'result == item'),
                  # C01 (A4): the element's own Signature has a single Reference and it names the element's own ID
                  ('C01-single-reference-to-own-id',
                   'truthy(item.id) and item.signature is not None and item.signature.signed_info is not None and '
                   'len(item.signature.signed_info.reference) == 1 and '
                   'item.signature.signed_info.reference[0].uri == concat("#", item.id)'),
                  # C01 (A2, A3, A5): in the document handed to the tool the element is the only one with its ID and the first
                  # signature at or below it is its own single Signature child
                  ('C01-one-enveloped-signature-of-its-own',
                   'ENVELOPED(DOC(decoded_xml), item.id, ite(truthy(id_attr), id_attr, self.id_attr))'),
                  # C01/C03/C10: normal return => the signature verified (tool said OK for this element id) under a
                  # certificate metadata holds for the issuer -- or, only when metadata has none and the configuration
                  # allows it, under a certificate embedded in the element's own signature
                  ('C03-verified-under-issuer-key', 'SIG_OK(self, decoded_xml, item, node_name, issuer)')],
         raises={'Exception': 'True'},
         modifies=[],
         loops={0: {'inv': ['len(certs) == i0',
                            'forall(lambda k: typed(certs[k], "Tuple(Any, Str)"), 0, i0)',
                            'forall(lambda k: certs[k][1] == tmpfile(pem(seq0[k])) and truthy(certs[k][1]), 0, i0)'],
                    'modifies': ['list(certs)']},
                1: {'inv': ['not truthy(verified)']}},
         comps={0: {'elem': ['res_i[1] == tmpfile(pem(src_i))', 'truthy(res_i[1])'], 'type': 'Tuple(Any, Str)'}},
         clauses_from={'C01': ['C03-verified-under-issuer-key', 'C01-single-reference-to-own-id',
                               'C01-one-enveloped-signature-of-its-own'], 'C03': ['C03-verified-under-issuer-key'],
                       'C10': ['C03-verified-under-issuer-key'], 'C20': ['C03-verified-under-issuer-key']})


# ================================================================================================ the external tool (C20, E-PROC)
from pyvc.state import declare_class, axiom
XB = 'saml2_tophat.sigver:CryptoBackendXmlSec1'
declare_class('tempfile:_TemporaryFileWrapper', fields={'name': 'Str'},
              methods={'seek': 'tempfile:ntf.seek', 'read': 'tempfile:ntf.read', 'write': 'tempfile:ntf.write'})
declare_class('subprocess:Popen', fields={'returncode': 'Opt(Int)'})
declare_class(XB, fields={'xmlsec': 'Str', '_xmlsec_delete_tmpfiles': 'Any'})
ghost('proc_ran', ['Seq', 'Val'], 'Bool')       # a process was started with this argv and wrote this text to stderr
ghost('proc_rc', ['Seq', 'Val', 'Val'], 'Bool')  # ... and ended with this return code (None: not known)
ghost('popen_argv', ['Val'], 'Seq')
ghost('content', ['Val'], 'Val')                # content of a temporary file by name (E-TMPFILE)
axiom('tmpfile', 'E-TMPFILE', "forall(lambda c: implies(tmpfile(c) == tmpfile(c), content(tmpfile(c)) == c and is_str(tmpfile(c))), 'Val')")

NTF = "Inst('tempfile:_TemporaryFileWrapper')"
contract('tempfile:NamedTemporaryFile', trusted=True, pure=True, params=['suffix', 'delete'],
         defaults={'suffix': '', 'delete': True}, returns=NTF, ensures=['truthy(result.name)'],
         raises={'OSError': 'True'}, assumptions=['E-TMPFILE'])
contract('tempfile:ntf.seek', trusted=True, pure=True, params=['self', 'pos'], assumptions=['E-TMPFILE'])
contract('tempfile:ntf.read', trusted=True, pure=True, params=['self'], returns='Bytes', assumptions=['E-PROC'],
         note='E-PROC: the --output file holds ANY bytes after the tool ran')
contract('subprocess:Popen', trusted=True, params=['self', 'args', 'stderr', 'stdout'],
         defaults={'stderr': None, 'stdout': None}, types={'args': 'List(Str)'},
         ensures=['popen_argv(self) == seq(args)'], raises={'OSError': 'True'}, assumptions=['E-PROC'],
         note='E-PROC: the program may not be startable at all')
contract('subprocess:Popen.communicate', trusted=True, params=['self'], returns='Tuple(Bytes, Bytes)',
         ensures=['proc_ran(popen_argv(self), vstr(unutf8(result[1])))',
                  'proc_rc(popen_argv(self), vstr(unutf8(result[1])), self.returncode)'], modifies=['self.returncode'],
         assumptions=['E-PROC'], note='E-PROC: any return code (or None), any stdout / stderr bytes')

# E-XMLSEC (verify): an OK line from `xmlsec1 --verify --enabled-reference-uris empty,same-doc --pubkey-cert-<t> C
#   --id-attr:<a> <name> --node-id <id> --output <o> <file>` means XS_OK(content(file), name, id, C)
_OK = ("exists(lambda k: splitlines(str_of(e))[k] == 'OK' and forall(lambda j: splitlines(str_of(e))[j] != 'OK' and "
       "splitlines(str_of(e))[j] != 'FAIL', 0, k), 0, len(splitlines(str_of(e))))")
axiom('proc_ran', 'E-XMLSEC-VERIFY',
      "forall(lambda a, e: implies(proc_ran(a, e) and is_str(e) and (%s) and len(a) == 13 "
      "and a[1] == '--verify' and a[2] == '--enabled-reference-uris' and a[3] == 'empty,same-doc' "
      "and is_str(a[4]) and prefixof('--pubkey-cert-', str_of(a[4])) and is_str(a[6]) and prefixof('--id-attr:', str_of(a[6])) "
      "and a[8] == '--node-id' and a[10] == '--output', "
      "XS_OK(content(a[12]), a[7], a[9], a[5])), ['Seq', 'Val'])" % _OK)

# the same command without --node-id: the tool verifies the FIRST signature of the document (node id None in XS_OK)
axiom('proc_ran', 'E-XMLSEC-VERIFY-NO-NODE-ID',
      "forall(lambda a, e: implies(proc_ran(a, e) and is_str(e) and (%s) and len(a) == 11 "
      "and a[1] == '--verify' and a[2] == '--enabled-reference-uris' and a[3] == 'empty,same-doc' "
      "and is_str(a[4]) and prefixof('--pubkey-cert-', str_of(a[4])) and is_str(a[6]) and prefixof('--id-attr:', str_of(a[6])) "
      "and a[8] == '--output', "
      "XS_OK(content(a[10]), a[7], None, a[5])), ['Seq', 'Val'])" % _OK)

contract(XB + '._run_xmlsec',
         types={'com_list': 'List(Str)', 'extra_args': 'List(Str)', 'validate_output': 'Any', 'exception': 'Any'},
         returns='Tuple(Str, Str, Bytes)',
         requires=['com_list != extra_args'],
         ensures=[('ran', "exists(lambda n: is_str(n) and proc_ran(old(seq(com_list)) + ['--output', n] + seq(extra_args), result[1]), 'Val')"),
                  ('C20-validated', 'implies(truthy(validate_output), %s)' % OKLINE.replace('output', 'str_of(result[1])')),
                  # C20: a tool that was killed (negative return code) never yields a normal return
                  ('C20-killed-tool-is-an-error',
                   "exists(lambda n, rc: is_str(n) and proc_rc(old(seq(com_list)) + ['--output', n] + seq(extra_args), result[1], rc) "
                   "and (rc is None or int_of(rc) >= 0), ['Val', 'Val'])")],
         raises={'XmlsecError': 'True', 'OSError': 'True', 'UnicodeDecodeError': 'True'},
         modifies=['list(com_list)'],
         clauses_from={'C20': ['C20-validated', 'C20-killed-tool-is-an-error', 'raises.XmlsecError']})

contract(XB + '.validate_signature',
         types={'signedtext': 'Union(Str, Bytes)', 'cert_file': 'Str', 'cert_type': 'Str', 'node_name': 'Str',
                'node_id': 'Opt(Str)', 'id_attr': 'Str'},
         returns='Bool',
         ensures=[('true', 'result is True'),
                  ('C20-ok-means-verified', 'XS_OK(DOC(signedtext), node_name, ite(truthy(node_id), node_id, None), cert_file)')],
         raises={'XmlsecError': 'True', 'OSError': 'True', 'UnicodeDecodeError': 'True'}, modifies=[],
         clauses_from={'C20': ['C20-ok-means-verified'], 'C01': ['C20-ok-means-verified']})


# ================================================================================================ message level (C01, C02, C10)
ghost('cname', ['Val'], 'Val')      # "<namespace>:<tag>" of an element object (class constants)
contract('saml2_tophat:class_name', trusted=True, pure=True, params=['instance'], returns='Str',
         ensures=['result == cname(instance)'], assumptions=['A-PY'], note='two class constants joined by ":"')

# "the element's own signature verified under a key the issuer has in metadata (or, failing that and if allowed, an
# embedded one)": the post of _check_signature, as a macro over (security context, document, element, issuer hint)
_ISSM = ("ite(item.issuer is not None and item.issuer.text is not None, vstr(strip(item.issuer.text)), "
         "ite(iss is not None and iss.text is not None, vstr(strip(iss.text)), None))")
macro('ISSUER_OF', ['item', 'iss'], _ISSM)
# SIGP names the formula "some usable certificate verifies" so that callers reason about one opaque atom; only
# _check_signature's own proof unfolds it (definitional axiom below: the formula implies the atom, nothing else is assumed)
ghost('SIGP', ['Val', 'Bool', 'Val', 'Val', 'Val', 'Val', 'Val'], 'Bool')   # (metadata, only_use_md_keys, doc bytes, id, issuer, item, node name)
# REF_OK (C01, atom A4): the element's own Signature has exactly one Reference and it names the element's own ID
macro('REF_OK', ['item'],
      'truthy(item.id) and item.signature is not None and item.signature.signed_info is not None and '
      'len(item.signature.signed_info.reference) == 1 and item.signature.signed_info.reference[0].uri == concat("#", item.id)')
macro('SIG_OK', ['sec', 'doc', 'item', 'nn', 'iss'],
      'SIGP(sec.metadata, truthy(sec.only_use_keys_in_metadata), DOC(doc), item.id, ISSUER_OF(item, iss), item, nn)')
axiom('SIGP', 'DEF-SIGP',
      "forall(lambda md, ou, d, i, s, item, nn: implies(exists(lambda k: "
      "((md is not None and md_nonempty(md)) and len(md_certs(md, s)) > 0 and k < len(md_certs(md, s)) "
      " and XS_OK(d, nn, i, tmpfile(pem(md_certs(md, s)[k])))) or "
      "(not ((md is not None and md_nonempty(md)) and len(md_certs(md, s)) > 0) and not ou "
      " and k < len(inst_certs(item)) and XS_OK(d, nn, i, tmpfile(pem(inst_certs(item)[k])))), "
      "0, len(md_certs(md, s)) + len(inst_certs(item))), SIGP(md, ou, d, i, s, item, nn)), "
      "['Val', 'Bool', 'Val', 'Val', 'Val', 'Val', 'Val'])", reveal_in=['SecurityContext._check_signature'])

contract(SC + '.check_signature',
         types={'item': "Inst('saml2_tophat:SamlBase')", 'node_name': 'Str', 'origdoc': 'Union(Str, Bytes)', 'id_attr': 'Str',
                'must': 'Any', 'issuer': "Opt(Inst('saml2_tophat.saml:Issuer'))"},
         returns="Inst('saml2_tophat:SamlBase')",
         requires=["isinstance(item, 'saml2_tophat.saml:AssertionType_') or isinstance(item, 'saml2_tophat.samlp:RequestAbstractType_') "
                   "or isinstance(item, 'saml2_tophat.samlp:StatusResponseType_')"],
         ensures=[('same-item', 'result == item'),
                  ('C01-verified', 'SIG_OK(self, origdoc, item, node_name, issuer)'),
                  ('C01-reference-own-id', 'REF_OK(item)'),
                  ('C01-one-enveloped-signature-of-its-own',
                   'ENVELOPED(DOC(origdoc), item.id, ite(truthy(id_attr), id_attr, self.id_attr))')],
         raises={'Exception': 'True'}, modifies=[],
         clauses_from={'C01': ['C01-verified', 'C01-reference-own-id', 'C01-one-enveloped-signature-of-its-own'], 'C03': ['C01-verified'], 'C20': ['C01-verified']})

contract(SC + '.correctly_signed_response',
         types={'decoded_xml': 'Union(Str, Bytes)', 'must': 'Any', 'origdoc': 'Any', 'only_valid_cert': 'Any',
                'require_response_signature': 'Any', 'kwargs': 'Dict(Str, Any)'},
         returns=SRT,
         ensures=[('parsed', 'is_resp(decoded_xml) and truthy(result.signature) == RP(decoded_xml) and fresh(result)'),
                  ('C02-required', 'implies(truthy(require_response_signature), RP(decoded_xml))'),
                  ('C01-verified', "implies(RP(decoded_xml) and not ('do_not_verify' in kwargs) and truthy(result.id), "
                                   "SIG_OK(self, decoded_xml, result, cname(result), None))"),
                  ('C01-reference-own-id', "implies(RP(decoded_xml) and not ('do_not_verify' in kwargs), REF_OK(result))"),
                  ('C01-one-enveloped-signature-of-its-own',
                   "implies(RP(decoded_xml) and not ('do_not_verify' in kwargs), ENVELOPED(DOC(decoded_xml), result.id, self.id_attr))")],
         raises={'TypeError': 'True', 'SigverError': 'True', 'Exception': 'True'},
         modifies=[],
         clauses_from={'C01': ['C01-verified', 'C01-reference-own-id', 'C01-one-enveloped-signature-of-its-own'], 'C02': ['C02-required', 'C01-verified'], 'C20': ['C01-verified']})


# ---- requests and other non-response messages: one specialised variant of correctly_signed_message per message type
# (the function picks the parser with getattr(samlp, '<type>_from_string'); with the type a constant this is exact)
def _msg_variants():
    from pyvc import front
    import ast as _ast
    samlp = front.module_obj('saml2_tophat.samlp')
    saml = front.module_obj('saml2_tophat.saml')
    fi = front.module_ast('saml2_tophat.sigver')
    types = set()
    for n in _ast.walk(fi):
        if isinstance(n, _ast.Call) and isinstance(n.func, _ast.Attribute) and n.func.attr == 'correctly_signed_message' \
                and len(n.args) >= 2 and isinstance(n.args[1], _ast.Constant):
            types.add(n.args[1].value)
    out = {}
    for t in sorted(types):
        fn = getattr(samlp, t + '_from_string', None) or getattr(saml, t + '_from_string', None)
        if fn is None:
            continue
        mod = fn.__module__
        # the class the parser instantiates, from the generated ELEMENT_FROM_STRING table of that module
        table = getattr(front.module_obj(mod), 'ELEMENT_FROM_STRING', {})
        cls = None
        for tag, f in table.items():
            if f is fn:
                for c in vars(front.module_obj(mod)).values():
                    if isinstance(c, type) and getattr(c, 'c_tag', None) == tag:
                        cls = front.cls_qual(c)
        if cls:
            out[t] = ('%s:%s_from_string' % (mod, t), cls)
    return out


ghost('is_msg', ['Val', 'Val'], 'Bool')     # is_msg(type, text): the text parses as that message type
MSG_VARIANTS = _msg_variants()
_variants = {}
for _t, (_fq, _cls) in MSG_VARIANTS.items():
    contract(_fq, trusted=True, params=['xml_string'], returns="Opt(Inst('%s'))" % _cls,
             ensures=['(result is not None) == is_msg(%r, xml_string)' % _t, 'implies(result is not None, fresh(result))'],
             raises={'Exception': 'True'}, assumptions=['E-PARSE', 'E-DEFUSED'])
    _vq = SC + '.correctly_signed_message[%s]' % _t
    _variants[('msgtype', _t)] = _vq
    contract(_vq, variant_of=SC + '.correctly_signed_message', consts={'msgtype': _t},
             types={'decoded_xml': 'Union(Str, Bytes)', 'must': 'Any', 'origdoc': 'Any', 'only_valid_cert': 'Any'},
             returns="Inst('%s')" % _cls,
             ensures=[('C10-parsed-as-expected-type', 'is_msg(%r, decoded_xml) and fresh(result)' % _t),
                      ('C10-must', 'implies(truthy(must), truthy(result.signature))'),
                      ('C10-verified', 'implies(truthy(result.signature) and truthy(result.id), '
                                       'SIG_OK(self, decoded_xml, result, cname(result), None))'),
                      ('C01-reference-own-id', 'implies(truthy(result.signature), REF_OK(result))'),
                      ('C01-one-enveloped-signature-of-its-own',
                       'implies(truthy(result.signature), ENVELOPED(DOC(decoded_xml), result.id, self.id_attr))')],
             raises={'TypeError': 'True', 'SigverError': 'True', 'Exception': 'True'}, modifies=[],
             clauses_from={'C10': ['C10-parsed-as-expected-type', 'C10-must', 'C10-verified'],
                           'C01': ['C10-verified', 'C01-reference-own-id', 'C01-one-enveloped-signature-of-its-own']})
contract(SC + '.correctly_signed_message', trusted=True, variants=_variants,
         note='dispatch stub: every call site in the package passes a constant message type and is checked against the '
              'specialised variant; a call with a non-constant type would fall back to this (no guarantees)')


# ================================================================================================ C15: redirect signatures
from pyvc.execexpr import global_object
RS = 'saml2_tophat.sigver:RSASigner'
declare_class('saml2_tophat.sigver:Signer', fields={'key': 'Any'})
declare_class(RS, fields={'digest': 'Any'})
declare_class('saml2_tophat.sigver:RSACrypto', fields={'key': 'Any'})
global_object('saml2_tophat.sigver:SIGNER_ALGS', "Dict(Str, Inst('%s'))" % RS)
ghost('rsa_sign', ['Val', 'Val', 'Val'], 'Val')        # E-RSA: signature of (key, message, digest)
ghost('rsa_ok', ['Val', 'Val', 'Val', 'Val'], 'Bool')  # E-RSA: (key, signature, message, digest) verifies

contract('saml2_tophat.sigver:Signer.__init__', inline=True)
contract(RS + '.__init__', inline=True)
contract('saml2_tophat.sigver:RSACrypto.get_signer', types={'sigalg': 'Any', 'sigkey': 'Any'}, returns="Opt(Inst('%s'))" % RS,
         ensures=[('unsupported-algorithm', 'implies(not (sigalg in SIGNER_ALGS), result is None)'),
                  ('supported-algorithm', 'implies(sigalg in SIGNER_ALGS, result is not None)'),
                  # C15: the signer carries the key of the entity that asked for it ...
                  ('C15-own-key', 'implies(result is not None, result.key == ite(truthy(sigkey), sigkey, self.key) '
                                  'and result.digest == SIGNER_ALGS[sigalg].digest)'),
                  # ... and is reachable by nobody else: with the frame clause below (nothing allocated before the call
                  # is written) any interleaving of two entities' obtain/sign steps equals the sequential one
                  ('C15-not-shared', 'implies(result is not None, fresh(result))')],
         raises={}, modifies=[],
         clauses_from={'C15': ['C15-own-key', 'C15-not-shared', 'frame']})

contract('saml2_tophat.cryptography.asymmetric:key_sign', trusted=True, pure=True, params=['rsakey', 'message', 'digest'],
         ensures=['result == rsa_sign(rsakey, message, digest)'], raises={'Exception': 'True'}, assumptions=['E-RSA'])
contract('saml2_tophat.cryptography.asymmetric:key_verify', trusted=True, pure=True,
         params=['rsakey', 'signature', 'message', 'digest'], returns='Bool',
         ensures=['vb(result) == rsa_ok(rsakey, signature, message, digest)'], assumptions=['E-RSA'])
contract(RS + '.sign', types={'msg': 'Any', 'key': 'Any'}, pure=True,
         ensures=[('C15-signs-with-own-key', 'result == rsa_sign(ite(truthy(key), key, self.key), msg, self.digest)')],
         raises={'Exception': 'True'}, modifies=[], clauses_from={'C15': ['C15-signs-with-own-key']})
contract(RS + '.verify', types={'msg': 'Any', 'sig': 'Any', 'key': 'Any'}, pure=True, returns='Bool',
         ensures=[('C15-verifies-with-given-key', 'vb(result) == rsa_ok(ite(truthy(key), key, self.key), sig, msg, self.digest)')],
         modifies=[], clauses_from={'C15': ['C15-verifies-with-given-key']})

ghost('pubkey_of_cert', ['Val'], 'Val')     # public key inside a PEM certificate (E-RSA / E-X509)
contract('saml2_tophat.sigver:extract_rsa_key_from_x509_cert', trusted=True, pure=True, params=['pem'],
         ensures=['result == pubkey_of_cert(pem)', 'truthy(result)'], raises={'Exception': 'True'}, assumptions=['E-X509'])

# SAML bindings 3.4.4.1: the octet string that is signed -- SAMLRequest|SAMLResponse, then RelayState if present,
# then SigAlg, each as one urlencoded k=v pair, joined by '&' (property-derived, not read off the code)
macro('SIGNED_QUERY', ['d', 'typ'],
      "concat(urlenc1(typ, urlpayload(d[typ])), "
      "str_of(ite('RelayState' in d, vstr(concat('&', urlenc1('RelayState', urlpayload(d['RelayState'])))), vstr(''))), "
      "str_of(ite('SigAlg' in d, vstr(concat('&', urlenc1('SigAlg', urlpayload(d['SigAlg'])))), vstr(''))))")
_TYP = "ite('SAMLRequest' in saml_msg, 'SAMLRequest', 'SAMLResponse')"
contract('saml2_tophat.sigver:verify_redirect_signature',
         types={'saml_msg': 'Dict(Str, Str)', 'crypto': "Inst('saml2_tophat.sigver:RSACrypto')", 'cert': 'Opt(Str)', 'sigkey': 'Any'},
         ensures=[('C15-unsupported-never-verifies', "implies(truthy(result), 'SigAlg' in saml_msg and saml_msg['SigAlg'] in SIGNER_ALGS)"),
                  ('C15-verifies-signed-query-under-given-certificate',
                   "implies(truthy(result), rsa_ok(ite(truthy(cert), pubkey_of_cert(pem(cert)), ite(truthy(sigkey), sigkey, crypto.key)), "
                   "vbytes(unb64(str_of(saml_msg['Signature']))), "
                   "vbytes(utf8(SIGNED_QUERY(saml_msg, %s))), SIGNER_ALGS[saml_msg['SigAlg']].digest))" % _TYP)],
         raises={'KeyError': 'True', 'Unsupported': 'True', 'ValueError': 'True', 'Exception': 'True'},
         modifies=[],
         clauses_from={'C15': ['C15-unsupported-never-verifies', 'C15-verifies-signed-query-under-given-certificate']})


# ================================================================================================ C17 / C20: encrypt, decrypt, sign
contract('saml2_tophat.sigver:pre_encrypt_assertion', trusted=True, params=['response'], assumptions=['A-PY'],
         note='moves response.assertion into a fresh EncryptedAssertion (builder code, not verified)')
contract('posix:unlink', trusted=True, pure=True, params=['path'], raises={'OSError': 'True'}, assumptions=['E-PROC'])

contract(XB + '.encrypt_assertion',
         types={'statement': "Union(Str, Inst('saml2_tophat:SamlBase'))", 'enc_key': 'Str', 'template': 'Any', 'key_type': 'Str', 'node_xpath': 'Opt(Str)', 'node_id': 'Opt(Str)'},
         returns='Str',
         ensures=[# C20: what is returned is the (non-empty) output the tool wrote, never the unencrypted statement
                  ('C20-result-is-tool-output', 'exists(lambda o: is_bytes(o) and len(bytes_of(o)) > 0 and str_of(result) == unutf8(bytes_of(o)), "Val")')],
         raises={'EncryptError': 'True', 'XmlsecError': 'True', 'OSError': 'True', 'UnicodeDecodeError': 'True'},
         modifies=[], clauses_from={'C20': ['C20-result-is-tool-output', 'raises.EncryptError'], 'C17': ['C20-result-is-tool-output']})

contract(XB + '.sign_statement',
         types={'statement': 'Str', 'node_name': 'Str', 'key_file': 'Str', 'node_id': 'Opt(Str)', 'id_attr': 'Str'}, returns='Str',
         ensures=[# C20: a signing run that produced no result never returns the unsigned statement as if it were signed
                  ('C20-result-is-tool-output', 'exists(lambda o: is_bytes(o) and len(bytes_of(o)) > 0 and str_of(result) == unutf8(bytes_of(o)), "Val")')],
         raises={'SigverError': 'True', 'OSError': 'True', 'UnicodeDecodeError': 'True'},
         modifies=[], clauses_from={'C20': ['C20-result-is-tool-output', 'raises.SigverError']})
contract(XB + '.decrypt', types={'enctext': 'Union(Str, Bytes)', 'key_file': 'Str', 'id_attr': 'Str'}, returns='Str', pure=False,
         ensures=[('tool-output', 'exists(lambda o: is_bytes(o) and str_of(result) == unutf8(bytes_of(o)), "Val")')],
         raises={'XmlsecError': 'True', 'OSError': 'True', 'UnicodeDecodeError': 'True', 'TypeError': 'True'}, modifies=[])

contract(SC + '.decrypt_keys', types={'enctext': 'Str', 'keys': 'Any', 'id_attr': 'Opt(Str)'}, returns='Str',
         requires=['keys is None or is_str(keys) or typed(keys, "List(Opt(Str))")'],
         ensures=[# C17 / C20: content that no configured key decrypts comes back unchanged (and then yields no assertion);
                  # anything else that is returned is non-empty output of the tool
                  ('C17-undecryptable-is-returned-unchanged', 'result == enctext or len(str_of(result)) > 0')],
         raises={'XmlsecError': 'True', 'OSError': 'True', 'UnicodeDecodeError': 'True', 'TypeError': 'True',
                 'UnicodeEncodeError': 'True', 'AttributeError': 'True'},
         modifies=[], loops={0: {'inv': [], 'modifies': []}, 1: {'inv': [], 'modifies': []}},
         local_types={'keys': 'List(Opt(Str))'},
         clauses_from={'C17': ['C17-undecryptable-is-returned-unchanged'], 'C20': ['C17-undecryptable-is-returned-unchanged']})
