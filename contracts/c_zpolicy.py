"""saml2_tophat.assertion -- the release policy (C07): the leaf filters are ASSUMED relations (bounded stand-in policy_filter),
the glue that selects the applicable settings and combines the stages (Policy.get / filter / restrict, Assertion.apply_policy)
is verified."""
from pyvc.spec import contract, macro
from pyvc.state import declare_class, ghost, axiom
from contracts.c_server import AST as _AST_DECLARED      # (class declarations and FILTERED live in c_server)

POL = 'saml2_tophat.assertion:Policy'
RT = 'Opt(Dict(Str, Dict(Str, Any)))'
# (Policy fields are declared in c_server.py)

# ---- Policy.get: the documented look-up order -- the SP's own entry, else "default", else the caller's default
_V = ("ite(has_key(self._restrictions, sp_entity_id) and has_key(as_type(self._restrictions[sp_entity_id], 'Dict(Str, Any)'), attribute), "
      "as_type(self._restrictions[sp_entity_id], 'Dict(Str, Any)')[attribute], "
      "ite(has_key(self._restrictions, 'default') and has_key(as_type(self._restrictions['default'], 'Dict(Str, Any)'), attribute), "
      "as_type(self._restrictions['default'], 'Dict(Str, Any)')[attribute], None))")
contract(POL + '.get[plain]', variant_of=POL + '.get', consts={'post_func': None},
         types={'attribute': 'Str', 'sp_entity_id': 'Opt(Str)', 'default': 'Any', 'kwargs': 'Dict(Str, Any)'}, returns='Any',
         requires=['self._restrictions is None or forall(lambda k: implies(has_key(self._restrictions, k), typed(self._restrictions[k], "Dict(Str, Any)")), "Val")',
                   'sp_entity_id is not None'],
         hints={('keys', 'kwargs'): []},
         ensures=[('C07-setting-of-the-sp-else-default',
                   'result == ite(not truthy(self._restrictions) or %s is None, default, %s)' % (_V, _V))],
         modifies=[], clauses_from={'C07': ['C07-setting-of-the-sp-else-default']})

# ---- the filter stages as relations between attribute sets (keys, values); the leaf functions are ASSUMED to establish them
#      (bounded stand-in policy_filter), the glue that combines them is verified
ghost('SUB', ['KeySet', 'KeyMap', 'KeySet', 'KeyMap'], 'Bool')      # every attribute of A is one of B, its values among B's
ghost('NAMED', ['KeySet', 'Val'], 'Bool')                           # every attribute name is allowed by the restriction table
ghost('ASKED', ['KeySet', 'Val', 'Val'], 'Bool')                    # every attribute name is among the SP's required / optional ones
ghost('ec_rest', ['Val', 'Val', 'Val', 'Val'], 'Val')               # the restriction table the SP's entity categories entitle it to
axiom('SUB', 'LEM-SUB-refl', "forall(lambda k, v: SUB(k, v, k, v), ['KeySet', 'KeyMap'])")
axiom('SUB', 'LEM-SUB-trans', "forall(lambda k1, v1, k2, v2, k3, v3: implies(SUB(k1, v1, k2, v2) and SUB(k2, v2, k3, v3), SUB(k1, v1, k3, v3)), "
                              "['KeySet', 'KeyMap', 'KeySet', 'KeyMap', 'KeySet', 'KeyMap'])")
axiom('NAMED', 'LEM-NAMED-sub', "forall(lambda k1, v1, k2, v2, r: implies(SUB(k1, v1, k2, v2) and NAMED(k2, r), NAMED(k1, r)), "
                                "['KeySet', 'KeyMap', 'KeySet', 'KeyMap', 'Val'])")
axiom('ASKED', 'LEM-ASKED-sub', "forall(lambda k1, v1, k2, v2, a, b: implies(SUB(k1, v1, k2, v2) and ASKED(k2, a, b), ASKED(k1, a, b)), "
                                "['KeySet', 'KeyMap', 'KeySet', 'KeyMap', 'Val', 'Val'])")
AVA = 'Dict(Str, Any)'
contract('saml2_tophat.assertion:filter_attribute_value_assertions', trusted=True, params=['ava', 'attribute_restrictions'],
         defaults={'attribute_restrictions': None}, types={'ava': AVA}, returns=AVA,
         ensures=['result == ava',
                  'implies(not truthy(attribute_restrictions), keyset(ava) == old(keyset(ava)) and valmap(ava) == old(valmap(ava)))',
                  'implies(truthy(attribute_restrictions), SUB(keyset(ava), valmap(ava), old(keyset(ava)), old(valmap(ava))) and '
                  'NAMED(keyset(ava), attribute_restrictions))'],
         raises={'TypeError': 'True', 'AttributeError': 'True'}, modifies=['dict(ava)'],
         note='ASSUMED (bounded stand-in policy_filter): only names the table allows survive, with values among the old ones')
contract('saml2_tophat.assertion:filter_on_attributes', trusted=True, params=['ava', 'required', 'optional', 'acs', 'fail_on_unfulfilled_requirements'],
         defaults={'required': None, 'optional': None, 'acs': None, 'fail_on_unfulfilled_requirements': True}, types={'ava': AVA}, returns=AVA,
         ensures=['fresh(result)', 'SUB(keyset(result), valmap(result), old(keyset(ava)), old(valmap(ava)))',
                  'ASKED(keyset(result), required, optional)'],
         raises={'MissingValue': 'True'}, modifies=['dict(ava)'],
         note='ASSUMED (bounded stand-in policy_filter): what is kept was asked for by the SP and comes from the identity')
contract('saml2_tophat.attribute_converter:ac_factory', trusted=True, pure=True, params=['path'], defaults={'path': ''}, returns='Any',
         ensures=['truthy(result)'], raises={'Exception': 'True'})
contract(POL + '.get_entity_categories', trusted=True, pure=True, params=['self', 'sp_entity_id', 'mds', 'required'], returns='Any',
         ensures=['result == ec_rest(self, sp_entity_id, mds, required)'],
         note='ASSUMED: Policy.get with post_func=post_entity_categories (call through a function-valued parameter with **kwargs)')
contract(POL + '.get_attribute_restrictions', inline=True)
contract(POL + '.get_fail_on_missing_requested', inline=True)
_AR = _V.replace('attribute', "'attribute_restrictions'")
_ARV = 'ite(not truthy(self._restrictions) or %s is None, None, %s)' % (_AR, _AR)
contract(POL + '.filter', types={'ava': AVA, 'sp_entity_id': 'Opt(Str)', 'mdstore': 'Any', 'required': 'Any', 'optional': 'Any'}, returns=AVA,
         requires=['self._restrictions is None or forall(lambda k: implies(has_key(self._restrictions, k), typed(self._restrictions[k], "Dict(Str, Any)")), "Val")',
                   'sp_entity_id is not None'],
         lets={'AR': _ARV, 'EC': 'ec_rest(self, sp_entity_id, mdstore, required)'},
         ensures=[# C07: whatever is returned comes from the identity ...
                  ('C07-subset-of-the-identity', 'SUB(keyset(result), valmap(result), old(keyset(ava)), old(valmap(ava)))'),
                  # ... names only attributes the applicable attribute restrictions allow ...
                  ('C07-attribute-restrictions-applied', 'implies(truthy(AR), NAMED(keyset(result), AR))'),
                  # ... only attributes the SP's entity categories entitle it to ...
                  ('C07-entity-categories-applied', 'implies(truthy(EC), NAMED(keyset(result), EC))'),
                  # ... and, when those do not apply, nothing outside the SP's declared required / optional attributes
                  ('C07-declared-attributes-applied', 'implies(not truthy(EC) and (truthy(required) or truthy(optional)), ASKED(keyset(result), required, optional))'),
                  ('identity-untouched', 'keyset(ava) == old(keyset(ava)) and valmap(ava) == old(valmap(ava))')],
         raises={'MissingValue': 'True', 'TypeError': 'True', 'AttributeError': 'True', 'Exception': 'True'},
         modifies=['self.acs'],
         clauses_from={'C07': ['C07-subset-of-the-identity', 'C07-attribute-restrictions-applied', 'C07-entity-categories-applied',
                               'C07-declared-attributes-applied']})

AST = 'saml2_tophat.assertion:Assertion'
ghost('md_req', ['Val', 'Val'], 'Val')
contract('saml2_tophat.mdstore:MetadataStore.attribute_requirement', trusted=True, pure=True, params=['self', 'entity_id', 'index'],
         defaults={'index': None}, returns='Opt(Dict(Str, Any))', ensures=['result == md_req(self, entity_id)'],
         note='ASSUMED here (C16): what the SP declares as required / optional attributes')
contract(POL + '.restrict', types={'ava': AVA, 'sp_entity_id': 'Opt(Str)', 'metadata': "Opt(Inst('saml2_tophat.mdstore:MetadataStore'))"}, returns=AVA,
         requires=['self._restrictions is None or forall(lambda k: implies(has_key(self._restrictions, k), typed(self._restrictions[k], "Dict(Str, Any)")), "Val")',
                   'sp_entity_id is not None'],
         lets={'AR': _ARV},
         ensures=[('C07-subset-of-the-identity', 'SUB(keyset(result), valmap(result), old(keyset(ava)), old(valmap(ava)))'),
                  ('C07-attribute-restrictions-applied', 'implies(truthy(AR), NAMED(keyset(result), AR))'),
                  ('identity-untouched', 'keyset(ava) == old(keyset(ava)) and valmap(ava) == old(valmap(ava))')],
         raises={'MissingValue': 'True', 'TypeError': 'True', 'AttributeError': 'True', 'KeyError': 'True', 'Exception': 'True'},
         modifies=['self.acs'],
         clauses_from={'C07': ['C07-subset-of-the-identity', 'C07-attribute-restrictions-applied']})

axiom('SUB', 'LEM-SUB-restrict', "forall(lambda k1, v1, k2, v2: implies(forall(lambda x: implies(k1[x], k2[x] and v1[x] == v2[x]), 'Val'), SUB(k1, v1, k2, v2)), "
                                 "['KeySet', 'KeyMap', 'KeySet', 'KeyMap'])")
_PAR = _ARV.replace('self._restrictions', 'policy._restrictions')
contract(AST + '.apply_policy',
         types={'sp_entity_id': 'Opt(Str)', 'policy': "Inst('%s')" % POL, 'metadata': "Opt(Inst('saml2_tophat.mdstore:MetadataStore'))"}, returns=AVA,
         requires=['policy._restrictions is None or forall(lambda k: implies(has_key(policy._restrictions, k), typed(policy._restrictions[k], "Dict(Str, Any)")), "Val")',
                   'sp_entity_id is not None'],
         lets={'AR': _PAR},
         ensures=[# C07: what stays in the Assertion object is exactly what the policy returned for attributes the identity had
                  ('C07-kept-is-what-the-policy-returned',
                   'forall(lambda k: has_key(self, k) == (old(has_key(self, k)) and has_key(result, k)) and '
                   'implies(has_key(self, k), valmap(self)[k] == valmap(result)[k]), "Val")'),
                  ('C07-subset-of-the-identity', 'SUB(keyset(self), valmap(self), old(keyset(self)), old(valmap(self)))'),
                  ('C07-attribute-restrictions-applied', 'implies(truthy(AR), NAMED(keyset(self), AR))')],
         defines=['IS_FILTERED(self, policy, sp_entity_id)'],
         raises={'MissingValue': {'when': 'True',
                                  'ensures': [('C07-identity-untouched-on-failure',
                                               'keyset(self) == old(keyset(self)) and valmap(self) == old(valmap(self))')]},
                 'TypeError': 'True', 'AttributeError': 'True', 'KeyError': 'True', 'Exception': 'True'},
         modifies=['dict(self)', 'policy.acs'],
         loops={0: {'inv': ['forall(lambda k: implies(has_key(self, k), old(has_key(self, k))), "Val")',
                            # keys already visited: kept iff the policy returned them, with the policy's values
                            'forall(lambda j: has_key(self, seq0[j]) == has_key(ava, seq0[j]) and '
                            'implies(has_key(self, seq0[j]), valmap(self)[seq0[j]] == valmap(ava)[seq0[j]]), 0, i0)',
                            # keys still to come: untouched
                            'forall(lambda j: implies(i0 <= j, has_key(self, seq0[j]) and valmap(self)[seq0[j]] == old(valmap(self))[seq0[j]]), 0, len(seq0))'],
                    'modifies': ['dict(self)']}},
         local_types={'ava': AVA},
         clauses_from={'C07': ['C07-kept-is-what-the-policy-returned', 'C07-subset-of-the-identity', 'C07-attribute-restrictions-applied',
                               'expost.C07-identity-untouched-on-failure']})
axiom('NAMED', 'LEM-NAMED-keys', "forall(lambda k1, k2, r: implies(forall(lambda x: implies(k1[x], k2[x]), 'Val') and NAMED(k2, r), NAMED(k1, r)), "
                                 "['KeySet', 'KeySet', 'Val'])")
