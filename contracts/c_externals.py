"""Trusted contracts of library / external functions (DESIGN 3: E-* items).  Never verified; every
check lists the ones it used."""
from pyvc.spec import contract
from pyvc.state import ghost, declare_class
from pyvc.execexpr import order_key

# E-CLOCK / E-TIMEPARSE ------------------------------------------------------------------------
ghost('NOW', [], 'Int')                 # the one instant read by every clock function during a call
ghost('epoch', ['Val'], 'Int')          # seconds since the epoch denoted by a timestamp string
ghost('parsable', ['Val'], 'Bool')      # str_to_time accepts the spelling
ghost('st_epoch', ['Val'], 'Int')       # seconds denoted by a struct_time value

declare_class('time:struct_time', fields={})
order_key('time:struct_time', 'st_epoch')

contract('saml2_tophat.time_util:utc_now', trusted=True, pure=True, params=[], returns='Int',
         ensures=['result == NOW'], assumptions=['E-CLOCK'])
# E-REGEX: compiled regular expressions (module- or class-level constants) ------------------------------------
ghost('pattern_matches', ['Val', 'Val', 'Val'], 'Bool')     # (pattern object, how: 'match'|'search'|'fullmatch', string)
declare_class('re:Pattern', fields={}, methods={'match': 're:Pattern.match', 'search': 're:Pattern.search', 'fullmatch': 're:Pattern.fullmatch'})
for _how in ('search', 'fullmatch'):       # ('match' returns a Match object: contract above)
    contract('re:Pattern.' + _how, trusted=True, pure=True, params=['self', 'string'], returns='Any',
             ensures=['truthy(result) == pattern_matches(self, %r, string)' % _how], raises={'TypeError': 'not (is_str(string) or is_bytes(string))'},
             assumptions=['E-REGEX'], note='whether a compiled pattern matches is an uninterpreted fact of (pattern, string)')



# str_to_time is VERIFIED against the meaning of epoch / parsable, which is defined (DEF-TIME below) in terms of the two
# external parsers it is built from: time.strptime and the compiled pattern TIME_FORMAT_WITH_FRAGMENT (E-TIMEPARSE)
TF = '%Y-%m-%dT%H:%M:%SZ'
ghost('strp_ok', ['Val', 'Val'], 'Bool')        # time.strptime(text, format) accepts the text
ghost('strp_epoch', ['Val', 'Val'], 'Int')      # ... and the seconds since the epoch its result denotes (read as UTC)
ghost('frag_match', ['Val'], 'Bool')            # TIME_FORMAT_WITH_FRAGMENT.match(text) matches
ghost('frag_base', ['Val'], 'Val')              # ... and its first group (the seconds-resolution part)
contract('time:strptime', trusted=True, pure=True, params=['string', 'format'], returns="Inst('time:struct_time')",
         ensures=['strp_ok(string, format)', 'st_epoch(result) == strp_epoch(string, format)'],
         raises={'ValueError': 'not strp_ok(string, format)', 'TypeError': 'not is_str(string)'}, assumptions=['E-TIMEPARSE'])
declare_class('re:Match', fields={}, methods={'groups': 're:Match.groups'})
ghost('match_of', ['Val'], 'Val')               # the text a Match object came from
contract('re:Pattern.match', trusted=True, pure=True, params=['self', 'string'], returns="Opt(Inst('re:Match'))",
         ensures=['(result is not None) == pattern_matches(self, "match", string)', 'implies(result is not None, match_of(result) == string)'],
         raises={'TypeError': 'not (is_str(string) or is_bytes(string))'}, assumptions=['E-REGEX'])
contract('re:Match.groups', trusted=True, pure=True, params=['self'], returns='List(Opt(Str))',
         ensures=['len(result) >= 1', 'result[0] == frag_base(match_of(self))', 'is_str(result[0])'], assumptions=['E-REGEX'],
         note='only used for TIME_FORMAT_WITH_FRAGMENT, whose first group always takes part in a match')
contract('saml2_tophat.time_util:str_to_time', params=None, pure=True,
         types={'timestr': 'Opt(Str)', 'format': 'Str'}, returns="Union(Int, Inst('time:struct_time'))",
         requires=["format == %r" % TF],
         ensures=['implies(not truthy(timestr), result == 0)',
                  "implies(truthy(timestr), typed(result, \"Inst('time:struct_time')\") and st_epoch(result) == epoch(timestr))",
                  ('only-parsable-text-is-accepted', 'implies(truthy(timestr), parsable(timestr))')],
         raises={'ValueError': 'truthy(timestr) and not parsable(timestr)',
                 'AttributeError': 'truthy(timestr) and not parsable(timestr)'},
         modifies=[], assumptions=['E-TIMEPARSE'],
         note='verified: the result denotes exactly the instant the text denotes at seconds resolution (a fraction is dropped, nothing is added)')
contract('calendar:timegm', trusted=True, pure=True, params=['tuple'], returns='Int',
         types={'tuple': "Union(Int, Inst('time:struct_time'))"},
         requires=["typed(tuple, \"Inst('time:struct_time')\")"],
         ensures=['result == st_epoch(tuple)'], assumptions=['E-CLOCK'])


from pyvc.state import axiom
_PM = "pattern_matches(regex_object('saml2_tophat.time_util.TIME_FORMAT_WITH_FRAGMENT'), 'match', t)"
_BZ = "vstr(concat(str_of(frag_base(t)), 'Z'))"
# DEF-TIME: what a timestamp text denotes, in terms of the two external parsers (this is the documented behaviour: the text is
# read with TIME_FORMAT; failing that, a fractional-seconds spelling is reduced to its seconds-resolution part)
axiom('parsable', 'DEF-TIME[parsable]',
      "forall(lambda t: parsable(t) == (is_str(t) and (strp_ok(t, %r) or (%s and strp_ok(%s, %r)))), 'Val')" % (TF, _PM, _BZ, TF),
      modname='saml2_tophat.time_util', reveal_in=['str_to_time', 'valid_date_time'])
axiom('epoch', 'DEF-TIME[epoch]',
      "forall(lambda t: epoch(t) == ite(strp_ok(t, %r), strp_epoch(t, %r), strp_epoch(%s, %r)), 'Val')" % (TF, TF, _BZ, TF),
      modname='saml2_tophat.time_util')
