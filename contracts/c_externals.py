"""Trusted contracts of library / external functions (DESIGN 3: E-* items).  Never verified; every
check lists the ones it used."""
from pyvc.spec import contract
from pyvc.state import ghost, declare_class
from pyvc.execexpr import order_key

# E-CLOCK / E-TIMEPARSE ------------------------------------------------------------------------
ghost('NOW', [], 'Int')                 # the one instant read by every clock function during a call
ghost('epoch', ['Val'], 'Int')          # seconds since the epoch denoted by a timestamp string
ghost('parsable', ['Val'], 'Bool')      # str_to_time accepts the spelling
ghost('st_epoch', ['Val'], 'Int')       # seconds denoted by a struct_time value

declare_class('time:struct_time', fields={})
order_key('time:struct_time', 'st_epoch')

contract('saml2_tophat.time_util:utc_now', trusted=True, pure=True, params=[], returns='Int',
         ensures=['result == NOW'], assumptions=['E-CLOCK'])
contract('saml2_tophat.time_util:str_to_time', trusted=True, pure=True, params=['timestr', 'format'],
         defaults={'format': '%Y-%m-%dT%H:%M:%SZ'},
         types={'timestr': 'Opt(Str)'}, returns="Union(Int, Inst('time:struct_time'))",
         ensures=['implies(not truthy(timestr), result == 0)',
                  "implies(truthy(timestr), typed(result, \"Inst('time:struct_time')\") and st_epoch(result) == epoch(timestr))"],
         raises={'ValueError': 'truthy(timestr) and not parsable(timestr)',
                 'AttributeError': 'truthy(timestr) and not parsable(timestr)'},
         assumptions=['E-TIMEPARSE'],
         note='str_to_time is repository code; its string parsing is covered by the bounded differential of C04, '
              'the proofs are parametric in epoch/parsable')
contract('calendar:timegm', trusted=True, pure=True, params=['tuple'], returns='Int',
         types={'tuple': "Union(Int, Inst('time:struct_time'))"},
         requires=["typed(tuple, \"Inst('time:struct_time')\")"],
         ensures=['result == st_epoch(tuple)'], assumptions=['E-CLOCK'])


# E-REGEX: compiled regular expressions (module- or class-level constants) ------------------------------------
ghost('pattern_matches', ['Val', 'Val', 'Val'], 'Bool')     # (pattern object, how: 'match'|'search'|'fullmatch', string)
declare_class('re:Pattern', fields={}, methods={'match': 're:Pattern.match', 'search': 're:Pattern.search', 'fullmatch': 're:Pattern.fullmatch'})
for _how in ('match', 'search', 'fullmatch'):
    contract('re:Pattern.' + _how, trusted=True, pure=True, params=['self', 'string'], returns='Any',
             ensures=['truthy(result) == pattern_matches(self, %r, string)' % _how], raises={'TypeError': 'not (is_str(string) or is_bytes(string))'},
             assumptions=['E-REGEX'], note='whether a compiled pattern matches is an uninterpreted fact of (pattern, string)')
