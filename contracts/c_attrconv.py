"""saml2_tophat.attribute_converter -- the value side of C08: what the application reads is the asserted text, trimmed."""
from pyvc.spec import contract
from pyvc.state import declare_class

AC = 'saml2_tophat.attribute_converter:AttributeConverter'
ATT = "Inst('saml2_tophat.saml:Attribute')"
declare_class(AC, fields={'name_format': 'Any', '_to': 'Opt(Dict(Str, Str))', '_fro': 'Opt(Dict(Str, Str))'})
_VAL = "ite(truthy(attribute.attribute_value[k].text), vstr(strip(attribute.attribute_value[k].text)), '')"

contract(AC + '.lcd_ava_from', types={'attribute': ATT}, returns='Tuple(Str, List(Str))',
         ensures=[('C08-name-trimmed', 'result[0] == vstr(strip(attribute.name))'),
                  # C08: one value read per value asserted, in order, each the asserted text with surrounding whitespace removed
                  ('C08-values-are-the-trimmed-texts', 'len(result[1]) == len(attribute.attribute_value) and '
                                                       'forall(lambda k: result[1][k] == %s, 0, len(result[1]))' % _VAL)],
         raises={'AttributeError': 'attribute.name is None'}, modifies=[],
         comps={0: {'elem': ["res_i == ite(truthy(src_i.text), vstr(strip(src_i.text)), '')"], 'type': 'Str'}},
         clauses_from={'C08': ['C08-name-trimmed', 'C08-values-are-the-trimmed-texts']})

