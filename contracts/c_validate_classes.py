"""C13: validate.valid_instance, one specialised contract per generated schema class.

valid_instance is table driven (it loops over instclass.c_attributes / c_children / c_cardinality).  With the class a
constant those loops are over constants and are unrolled exactly, so each variant is an ordinary function-level proof.
The postcondition of the variant for class K is generated from what K *declares* (required attributes, attribute
types of the checked simple kinds, occurrence bounds) -- the "declared constraints" the property speaks about."""
from pyvc.spec import contract
from pyvc.state import ghost
from pyvc import front

ghost('conforms', ['Val', 'Val'], 'Bool')       # conforms(validator name, value): that validator accepts the value
ghost('verified', ['Val'], 'Bool')              # x.verify() returns normally (recursion into children)

V = 'saml2_tophat.validate:'
# checked simple kinds named by the property -> the validator that must have been applied (documented mapping)
CHECKED = {'dateTime': 'valid_date_time', 'datetime': 'valid_date_time', 'boolean': 'valid_boolean',
           'integer': 'valid_integer', 'nonNegativeInteger': 'valid_non_negative_integer',
           'positiveInteger': 'valid_positive_integer', 'PositiveInteger': 'valid_positive_integer',
           'unsignedShort': 'valid_unsigned_short', 'unsignedByte': 'valid_unsigned_byte', 'duration': 'valid_duration'}

# every validator: returns True iff it accepts, raises NotValid otherwise
_VALIDATORS = ['valid_id', 'valid_ncname', 'valid_date_time', 'valid_any_uri', 'valid_non_negative_integer',
               'valid_positive_integer', 'valid_boolean', 'valid_unsigned_short', 'valid_duration', 'valid_base64',
               'valid_integer', 'valid_qname', 'valid_anytype', 'valid_string', 'valid_unsigned_byte']
for _v in _VALIDATORS:
    contract(V + _v, pure=True, params=None, types={}, returns='Any',
             ensures=['conforms(%r, %s)' % (_v, 'PARAM0')],
             raises={'NotValid': 'not conforms(%r, %s)' % (_v, 'PARAM0'), 'AttributeError': 'True', 'TypeError': 'True'},
             modifies=[], note='abstract contract of a validator; the arithmetic ones are verified against their meaning below')


def _fix_param_names():
    from pyvc.spec import CONTRACTS
    for _v in _VALIDATORS:
        c = CONTRACTS[V + _v]
        try:
            fi = front.find_function(V + _v)
        except Exception:
            continue
        p = fi.node.args.args[0].arg
        c.ensures = [e.replace('PARAM0', p) for e in c.ensures]
        c.raises = {k: w.replace('PARAM0', p) for k, w in c.raises.items()}


_fix_param_names()

# valid_date_time is verified against the meaning of "parsable" (the accepted spellings, DEF-TIME in c_externals)
from pyvc.spec import CONTRACTS as _C
_c = _C[V + 'valid_date_time']
from pyvc import types as _Ty
_c.types = {'item': _Ty.parse_type('Opt(Str)')}
_c.raises = dict(_c.raises, **{'NotValid': "not conforms('valid_date_time', item)"})
contract(V + 'validate_value_type', inline=True)
contract(V + 'valid', inline=True)
contract(V + '_valid_instance', inline=True)

# x.verify(): SamlBase.verify is valid_instance(self); the class-specific overrides add their own assertions first
_VERIFY_RAISES = {'NotValid': 'not verified(self)', 'ValueError': 'not verified(self)', 'AssertionError': 'not verified(self)',
                  'OutsideCardinality': 'not verified(self)',
                  'AttributeError': 'not verified(self)', 'TypeError': 'not verified(self)'}
for _q in ['saml2_tophat:SamlBase.verify', 'saml2_tophat.saml:AttributeValueBase.verify', 'saml2_tophat.saml:SubjectLocality.verify',
           'saml2_tophat.saml:AuthnContextType_.verify', 'saml2_tophat.saml:ConditionsType_.verify',
           'saml2_tophat.saml:AssertionType_.verify']:
    contract(_q, pure=True, ensures=['verified(self)'], raises=_VERIFY_RAISES, modifies=[],
             note='recursion into a child: `verified` is defined as "verify() returned normally" (induction over the finite tree)')


def class_contract(cls):
    """contract of valid_instance specialised to the schema class `cls` (a Python class object)"""
    q = front.cls_qual(cls)
    vq = V + 'valid_instance[%s]' % q
    ens, all_ok = [], []
    for key, (name, typ, required) in sorted(cls.c_attributes.items()):
        if required:
            ens.append(('C13-required[%s]' % name, 'truthy(instance.%s)' % name))
            all_ok.append('truthy(instance.%s)' % name)
        if isinstance(typ, str):
            base = typ.split(':')[-1]
            if base in CHECKED:
                cl = 'implies(truthy(instance.%s), conforms(%r, instance.%s))' % (name, CHECKED[base], name)
                ens.append(('C13-typed[%s:%s]' % (name, base), cl))
                all_ok.append(cl)
    for key, (name, spec) in sorted(cls.c_children.items()):
        card = cls.c_cardinality.get(name)
        is_list = isinstance(spec, list)
        ln = 'len(instance.%s)' % name if is_list else '1'
        if card:
            if card.get('min') is not None and card.get('min'):
                cl = 'truthy(instance.%s) and %s >= %d' % (name, ln, card['min'])
                ens.append(('C13-min[%s]' % name, cl))
                all_ok.append(cl)
            if card.get('max') is not None:
                cl = 'implies(truthy(instance.%s), %s <= %d)' % (name, ln, card['max'])
                ens.append(('C13-max[%s]' % name, cl))
                all_ok.append(cl)
        if is_list:
            cl = 'forall(lambda i: verified(instance.%s[i]), 0, len(instance.%s))' % (name, name)
        else:
            cl = 'implies(truthy(instance.%s), verified(instance.%s))' % (name, name)
        ens.append(('C13-child-valid[%s]' % name, cl))
    ens.append(('true', 'result is True'))
    return contract(vq, variant_of=V + 'valid_instance',
                    types={'instance': "Inst('%s')" % q}, returns='Bool', feas_ms=40,
                    requires=['cls_of(instance) == cls_id(%r)' % q],
                    ensures=ens,
                    raises={'NotValid': 'True', 'ValueError': 'True', 'AssertionError': 'True', 'OutsideCardinality': 'True',
                            'KeyError': 'False', 'AttributeError': 'True', 'TypeError': 'True', 'IndexError': 'True'},
                    modifies=[], loops={2: {'inv': ['forall(lambda k: verified(seq2[k]), 0, i2)']}},
                    clauses_from={'C13': [l for l, _ in ens]})


def all_class_contracts(modules=None):
    from pyvc import tables
    out = []
    for cls in tables.schema_classes():
        if modules and cls.__module__ not in modules:
            continue
        if cls.__name__ in ('AttributeValueBase', 'AttributeValue'):
            continue        # typed text with a dispatch table of lambdas / __setattr__ override: outside the subset
        out.append(class_contract(cls).qual)
    return out


QUICK_CLASSES = ['saml2_tophat.samlp:Status', 'saml2_tophat.samlp:StatusCode', 'saml2_tophat.samlp:NameIDPolicy',
                 'saml2_tophat.saml:Subject', 'saml2_tophat.saml:SubjectConfirmation', 'saml2_tophat.saml:SubjectConfirmationData',
                 'saml2_tophat.saml:NameID', 'saml2_tophat.saml:Issuer', 'saml2_tophat.saml:AudienceRestriction',
                 'saml2_tophat.saml:AuthnContext', 'saml2_tophat.md:KeyDescriptor', 'saml2_tophat.extension.mdui:Logo']
# bigger classes: generation cost grows steeply with the number of members (see DESIGN, Changes); thorough tier only
THOROUGH_CLASSES = QUICK_CLASSES + ['saml2_tophat.saml:Conditions', 'saml2_tophat.samlp:Response', 'saml2_tophat.samlp:AuthnRequest',
                                    'saml2_tophat.samlp:LogoutRequest', 'saml2_tophat.saml:AuthnStatement',
                                    'saml2_tophat.saml:AttributeStatement', 'saml2_tophat.saml:Attribute']


def functions_for_tier(tier):
    out = []
    for q in (THOROUGH_CLASSES if tier == 'thorough' else QUICK_CLASSES):
        out.append(class_contract(front.cls_obj(q)).qual)
    return out


# ---- what "conforms" MEANS for the integer kinds (definitions, so that the validators themselves are verified against the
#      meaning the property speaks about: a non-conforming value is rejected, a conforming one accepted)
ghost('int_ok', ['Val'], 'Bool')        # int(text) parses (A-STR)
ghost('int_val', ['Val'], 'Int')        # ... and its value
from pyvc.state import axiom
_NUM = '(is_str(v) and int_ok(v))'
_IV = 'ite(is_str(v), int_val(v), ite(is_int(v), int_of(v), ite(v is True, 1, 0)))'
_PARSES = '((is_str(v) and int_ok(v)) or is_int(v) or is_bool(v))'
for _name, _cond in [('valid_integer', 'True'), ('valid_non_negative_integer', '%s >= 0' % _IV), ('valid_positive_integer', '%s > 0' % _IV),
                     ('valid_unsigned_byte', '0 <= %s and %s <= 255' % (_IV, _IV))]:
    axiom('conforms', 'DEF-conforms[%s]' % _name,
          "forall(lambda v: conforms(%r, v) == (%s and (%s)), 'Val')" % (_name, _PARSES, _cond), modname='saml2_tophat.validate')
INTEGER_VALIDATORS = [V + n for n in ('valid_integer', 'valid_non_negative_integer', 'valid_positive_integer', 'valid_unsigned_byte')]
axiom('conforms', 'DEF-conforms[valid_date_time]',
      "forall(lambda v: conforms('valid_date_time', v) == (not truthy(v) or (is_str(v) and parsable(v))), 'Val')", modname='saml2_tophat.validate')
axiom('conforms', 'DEF-conforms[valid_boolean]',
      "forall(lambda v: conforms('valid_boolean', v) == (is_str(v) and (lower(str_of(v)) == 'true' or lower(str_of(v)) == 'false' or "
      "lower(str_of(v)) == '0' or lower(str_of(v)) == '1')), 'Val')", modname='saml2_tophat.validate')
