"""saml2_tophat.response — response validation (C02, C04, C05, C06, C17)."""
from pyvc.spec import contract, macro

AR = "Inst('saml2_tophat.saml:AudienceRestriction')"
macro('names', ['r', 'me'],
      "exists(lambda j: strip(as_type(r, \"%s\").audience[j].text) == me, 0, len(as_type(r, \"%s\").audience))" % (AR, AR))

contract('saml2_tophat.response:for_me',
         types={'conditions': "Inst('saml2_tophat.saml:Conditions')", 'myself': 'Str'}, returns='Bool',
         lets={'RS': 'conditions.audience_restriction'},
         ensures=[('none', 'implies(not truthy(RS), result is True)'),
                  # C05: *every* audience restriction present must list the provider
                  ('C05-every', 'implies(truthy(RS) and result is True, forall(lambda i: names(RS[i], myself), 0, len(RS)))'),
                  ('false', 'implies(truthy(RS) and result is False, exists(lambda i: not names(RS[i], myself), 0, len(RS)))')],
         raises={'AttributeError': 'True'},     # an <Audience/> without text
         modifies=[],
         loops={0: {'inv': ['forall(lambda k: names(seq0[k], myself), 0, i0)']},
                1: {'inv': ['forall(lambda k: strip(seq1[k].text) != myself, 0, i1)']}},
         clauses_from={'C05': ['C05-every']})

# ------------------------------------------------------------------------------------------------
# helpers of the schema base class used by the validation code (A-PY: __dict__ holds exactly the members)
contract('saml2_tophat:SamlBase.keyswv', trusted=True, pure=True, params=['self'], returns='List(Str)',
         ensures=['implies(not truthy(result), not truthy(self.not_before) and not truthy(self.not_on_or_after) '
                  'and not truthy(self.audience_restriction) and not truthy(self.condition))'],
         assumptions=['A-PY'], note='list of member names whose value is truthy; only the empty case is used')

SR = 'saml2_tophat.response:StatusResponse'
AR_ = 'saml2_tophat.response:AuthnResponse'

# ---- C04: IssueInstant within one day (+ allowance) of now
contract(SR + '.issue_instant_ok', returns='Bool',
         requires=['self.response is not None'],
         lets={'ii': 'self.response.issue_instant'},
         ensures=[('C04-window', 'implies(result is True, epoch(ii) - NOW <= 86400 + self.timeslack '
                                 'and NOW - epoch(ii) <= 86400 + self.timeslack)'),
                  ('C04-accept', 'implies(epoch(ii) - NOW < 86400 + self.timeslack and NOW - epoch(ii) < 86400 + self.timeslack, '
                                 'result is True)')],
         raises={'Exception': 'not truthy(ii) or not parsable(ii)'},
         modifies=[], clauses_from={'C04': ['C04-window', 'C04-accept']})

# ---- C04: SessionNotOnOrAfter
contract(AR_ + '.authn_statement_ok', types={'optional': 'Any'}, returns='Bool',
         requires=['self.assertion is not None'],
         lets={'AS': 'self.assertion.authn_statement'},
         ensures=[('C04-session', 'implies(not truthy(optional) and truthy(AS[0].session_not_on_or_after), '
                                  'NOW <= epoch(AS[0].session_not_on_or_after) + self.timeslack)'),
                  ('C04-session-value', 'implies(result is True and len(AS) == 1 and truthy(AS[0].session_not_on_or_after), '
                                        'self.session_not_on_or_after == epoch(AS[0].session_not_on_or_after))'),
                  ('one-statement', 'implies(not truthy(optional), len(AS) == 1)'),
                  ('frame-else', 'implies(not (len(AS) == 1 and truthy(AS[0].session_not_on_or_after)), '
                                 'self.session_not_on_or_after == old(self.session_not_on_or_after))')],
         raises={'AssertionError': 'len(AS) != 1 and not truthy(optional)',
                 'ResponseLifetimeExceed': 'len(AS) == 1 and truthy(AS[0].session_not_on_or_after) and '
                                           'NOW > epoch(AS[0].session_not_on_or_after) + self.timeslack',
                 'ValueError': 'len(AS) == 1 and truthy(AS[0].session_not_on_or_after) and '
                               'not parsable(AS[0].session_not_on_or_after)',
                 'AttributeError': 'len(AS) == 1 and truthy(AS[0].session_not_on_or_after) and '
                                   'not parsable(AS[0].session_not_on_or_after)'},
         modifies=['self.session_not_on_or_after'],
         clauses_from={'C04': ['C04-session', 'C04-session-value', 'raises.ResponseLifetimeExceed']})

# ---- C04 + C05: Conditions
_C = 'self.assertion.conditions'
contract(AR_ + '.condition_ok', types={'lax': 'Any'}, returns='Bool',
         requires=['self.assertion is not None'],
         lets={'C': _C, 'strict': 'not truthy(lax) and not truthy(self.test)',
               'RS': 'self.assertion.conditions.audience_restriction'},
         ensures=[('C04-nooa', 'implies(result is True and strict and C is not None and truthy(C.not_on_or_after), '
                               'NOW <= epoch(C.not_on_or_after) + self.timeslack)'),
                  ('C04-nb', 'implies(result is True and strict and C is not None and truthy(C.not_before), '
                             'epoch(C.not_before) <= NOW + self.timeslack)'),
                  ('C04-order', 'implies(result is True and C is not None and truthy(C.not_before) and truthy(C.not_on_or_after), '
                                'epoch(C.not_on_or_after) >= epoch(C.not_before))'),
                  ('C04-expiry-value', 'implies(result is True and strict and C is not None and truthy(C.not_on_or_after), '
                                       'self.not_on_or_after == epoch(C.not_on_or_after))'),
                  # C05: audience restrictions are enforced whatever allow_unsolicited says
                  ('C05-audience', 'implies(result is True and strict and C is not None and truthy(RS), '
                                   'forall(lambda i: names(RS[i], self.entity_id), 0, len(RS)))')],
         raises={'ResponseLifetimeExceed': 'C is not None and truthy(C.not_on_or_after) and '
                                           'NOW > epoch(C.not_on_or_after) + self.timeslack',
                 'ToEarly': 'C is not None and truthy(C.not_before) and epoch(C.not_before) > NOW + self.timeslack',
                 'Exception': 'True'},
         modifies=['self.not_on_or_after'],
         loops={0: {'inv': []}},
         clauses_from={'C04': ['C04-nooa', 'C04-nb', 'C04-order', 'C04-expiry-value', 'raises.ResponseLifetimeExceed',
                               'raises.ToEarly'], 'C05': ['C05-audience']})

contract('saml2_tophat.validate:valid_address', trusted=True, pure=True, params=['address'], returns='Bool',
         ensures=['result is True'], raises={'NotValid': 'True'}, assumptions=['E-IPADDR'],
         note='address syntax only; irrelevant to the properties')

# ---- C04 + C05: bearer SubjectConfirmationData
_D = "Opt(Inst('saml2_tophat.saml:SubjectConfirmationData'))"
contract(AR_ + '._bearer_confirmed', types={'data': _D}, returns='Bool',
         ensures=[('no-data', 'implies(data is None, result is False)'),
                  ('C04-nooa', 'implies(result is True and truthy(data.not_on_or_after), '
                               'NOW <= epoch(data.not_on_or_after) + self.timeslack)'),
                  ('C04-nb', 'implies(result is True and truthy(data.not_before), epoch(data.not_before) <= NOW + self.timeslack)'),
                  ('C04-order', 'implies(result is True and truthy(data.not_before) and truthy(data.not_on_or_after), '
                                'epoch(data.not_on_or_after) >= epoch(data.not_before))'),
                  # C05: a bearer confirmation that names a request names an outstanding one (unless unsolicited allowed)
                  ('C05-solicited', 'implies(result is True and truthy(self.asynchop) and old(self.came_from) is None '
                                    'and truthy(data.in_response_to) and not truthy(self.allow_unsolicited), '
                                    'data.in_response_to in self.outstanding_queries)'),
                  ('came-from', 'implies(result is True and truthy(self.asynchop) and old(self.came_from) is None '
                                'and truthy(data.in_response_to) and data.in_response_to in self.outstanding_queries, '
                                'self.came_from == self.outstanding_queries[data.in_response_to])'),
                  ('came-from-frame', 'implies(not (truthy(self.asynchop) and old(self.came_from) is None '
                                      'and data is not None and truthy(data.in_response_to) '
                                      'and data.in_response_to in self.outstanding_queries), '
                                      'self.came_from == old(self.came_from))')],
         raises={'ResponseLifetimeExceed': 'data is not None and truthy(data.not_on_or_after) and '
                                           'NOW > epoch(data.not_on_or_after) + self.timeslack',
                 'ToEarly': 'data is not None and truthy(data.not_before) and epoch(data.not_before) > NOW + self.timeslack',
                 'Exception': 'True'},
         modifies=['self.came_from'],
         clauses_from={'C04': ['C04-nooa', 'C04-nb', 'C04-order', 'raises.ResponseLifetimeExceed', 'raises.ToEarly'],
                       'C05': ['C05-solicited']})
