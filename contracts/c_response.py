"""saml2_tophat.response — response validation (C02, C04, C05, C06, C17)."""
from pyvc.spec import contract, macro

AR = "Inst('saml2_tophat.saml:AudienceRestriction')"
macro('names', ['r', 'me'],
      "exists(lambda j: strip(as_type(r, \"%s\").audience[j].text) == me, 0, len(as_type(r, \"%s\").audience))" % (AR, AR))

contract('saml2_tophat.response:for_me',
         types={'conditions': "Inst('saml2_tophat.saml:Conditions')", 'myself': 'Str'}, returns='Bool',
         lets={'RS': 'conditions.audience_restriction'},
         ensures=[('none', 'implies(not truthy(RS), result is True)'),
                  ('some', 'implies(truthy(RS) and result is True, exists(lambda i: names(RS[i], myself), 0, len(RS)))'),
                  ('false', 'implies(truthy(RS) and result is False, forall(lambda i: not names(RS[i], myself), 0, len(RS)))'),
                  # C05: *every* audience restriction present must list the provider
                  ('C05-every', 'implies(truthy(RS) and result is True, '
                                'forall(lambda i: implies(truthy(RS[i].audience), names(RS[i], myself)), 0, len(RS)))')],
         raises={'AttributeError': 'True'},     # an <Audience/> without text
         modifies=[],
         loops={0: {'inv': ['forall(lambda k: not names(seq0[k], myself), 0, i0)']},
                1: {'inv': ['forall(lambda k: strip(seq1[k].text) != myself, 0, i1)']}},
         clauses_from={'C05': ['C05-every']})
