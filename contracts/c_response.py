"""saml2_tophat.response — response validation (C02, C04, C05, C06, C17)."""
from pyvc.spec import contract, macro

AR = "Inst('saml2_tophat.saml:AudienceRestriction')"
macro('names', ['r', 'me'],
      "exists(lambda j: strip(as_type(r, \"%s\").audience[j].text) == me, 0, len(as_type(r, \"%s\").audience))" % (AR, AR))

contract('saml2_tophat.response:for_me',
         types={'conditions': "Inst('saml2_tophat.saml:Conditions')", 'myself': 'Str'}, returns='Bool',
         lets={'RS': 'conditions.audience_restriction'},
         ensures=[('none', 'implies(not truthy(RS), result is True)'),
                  # C05: *every* audience restriction present must list the provider
                  ('C05-every', 'implies(truthy(RS) and result is True, forall(lambda i: names(RS[i], myself), 0, len(RS)))'),
                  ('false', 'implies(truthy(RS) and result is False, exists(lambda i: not names(RS[i], myself), 0, len(RS)))')],
         raises={'AttributeError': 'True'},     # an <Audience/> without text
         modifies=[],
         loops={0: {'inv': ['forall(lambda k: names(seq0[k], myself), 0, i0)']},
                1: {'inv': ['forall(lambda k: strip(seq1[k].text) != myself, 0, i1)']}},
         clauses_from={'C05': ['C05-every']})

# ------------------------------------------------------------------------------------------------
# helpers of the schema base class used by the validation code (A-PY: __dict__ holds exactly the members)
contract('saml2_tophat:SamlBase.keyswv', trusted=True, pure=True, params=['self'], returns='List(Str)',
         ensures=['implies(not truthy(result), not truthy(self.not_before) and not truthy(self.not_on_or_after) '
                  'and not truthy(self.audience_restriction) and not truthy(self.condition))'],
         assumptions=['A-PY'], note='list of member names whose value is truthy; only the empty case is used')

SR = 'saml2_tophat.response:StatusResponse'
AR_ = 'saml2_tophat.response:AuthnResponse'

# ---- C04: IssueInstant within one day (+ allowance) of now
contract(SR + '.issue_instant_ok', returns='Bool',
         requires=['self.response is not None'],
         lets={'ii': 'self.response.issue_instant'},
         ensures=[('C04-window', 'implies(result is True, epoch(ii) - NOW <= 86400 + self.timeslack '
                                 'and NOW - epoch(ii) <= 86400 + self.timeslack)'),
                  ('C04-accept', 'implies(epoch(ii) - NOW < 86400 + self.timeslack and NOW - epoch(ii) < 86400 + self.timeslack, '
                                 'result is True)')],
         raises={'ValueError': 'not parsable(ii)', 'AttributeError': 'not parsable(ii)', 'TypeError': 'not truthy(ii)'},
         modifies=[], clauses_from={'C04': ['C04-window', 'C04-accept']})

# ---- C04: SessionNotOnOrAfter
contract(AR_ + '.authn_statement_ok', types={'optional': 'Any'}, returns='Bool',
         requires=['self.assertion is not None'],
         lets={'AS': 'self.assertion.authn_statement'},
         ensures=[('C04-session', 'implies(not truthy(optional) and truthy(AS[0].session_not_on_or_after), '
                                  'NOW <= epoch(AS[0].session_not_on_or_after) + self.timeslack)'),
                  ('C04-session-value', 'implies(result is True and len(AS) == 1 and truthy(AS[0].session_not_on_or_after), '
                                        'self.session_not_on_or_after == epoch(AS[0].session_not_on_or_after))'),
                  ('one-statement', 'implies(not truthy(optional), len(AS) == 1)'),
                  ('frame-else', 'implies(not (len(AS) == 1 and truthy(AS[0].session_not_on_or_after)), '
                                 'self.session_not_on_or_after == old(self.session_not_on_or_after))')],
         raises={'AssertionError': 'len(AS) != 1 and not truthy(optional)',
                 'ResponseLifetimeExceed': 'len(AS) == 1 and truthy(AS[0].session_not_on_or_after) and '
                                           'NOW > epoch(AS[0].session_not_on_or_after) + self.timeslack',
                 'ValueError': 'len(AS) == 1 and truthy(AS[0].session_not_on_or_after) and '
                               'not parsable(AS[0].session_not_on_or_after)',
                 'AttributeError': 'len(AS) == 1 and truthy(AS[0].session_not_on_or_after) and '
                                   'not parsable(AS[0].session_not_on_or_after)'},
         modifies=['self.session_not_on_or_after'],
         clauses_from={'C04': ['C04-session', 'C04-session-value', 'raises.ResponseLifetimeExceed']})

# ---- C04 + C05: Conditions
_C = 'self.assertion.conditions'
contract(AR_ + '.condition_ok', types={'lax': 'Any'}, returns='Bool',
         requires=['self.assertion is not None'],
         lets={'C': _C, 'strict': 'not truthy(lax) and not truthy(self.test)',
               'RS': 'self.assertion.conditions.audience_restriction'},
         ensures=[('C04-nooa', 'implies(result is True and strict and C is not None and truthy(C.not_on_or_after), '
                               'NOW <= epoch(C.not_on_or_after) + self.timeslack)'),
                  ('C04-nb', 'implies(result is True and strict and C is not None and truthy(C.not_before), '
                             'epoch(C.not_before) <= NOW + self.timeslack)'),
                  ('C04-order', 'implies(result is True and C is not None and truthy(C.not_before) and truthy(C.not_on_or_after), '
                                'epoch(C.not_on_or_after) >= epoch(C.not_before))'),
                  ('C04-expiry-value', 'implies(result is True and strict and C is not None and truthy(C.not_on_or_after), '
                                       'self.not_on_or_after == epoch(C.not_on_or_after))'),
                  # C05: audience restrictions are enforced whatever allow_unsolicited says
                  ('C05-audience', 'implies(result is True and strict and C is not None and truthy(RS), '
                                   'forall(lambda i: names(RS[i], self.entity_id), 0, len(RS)))')],
         raises={'ResponseLifetimeExceed': 'C is not None and truthy(C.not_on_or_after) and '
                                           'NOW > epoch(C.not_on_or_after) + self.timeslack',
                 'ToEarly': 'C is not None and truthy(C.not_before) and epoch(C.not_before) > NOW + self.timeslack',
                 'Exception': 'True'},
         modifies=['self.not_on_or_after'],
         loops={0: {'inv': []}},
         clauses_from={'C04': ['C04-nooa', 'C04-nb', 'C04-order', 'C04-expiry-value', 'raises.ResponseLifetimeExceed',
                               'raises.ToEarly'], 'C05': ['C05-audience']})

contract('saml2_tophat.validate:valid_address', trusted=True, pure=True, params=['address'], returns='Bool',
         ensures=['result is True'], raises={'NotValid': 'True'}, assumptions=['E-IPADDR'],
         note='address syntax only; irrelevant to the properties')

# ---- C04 + C05: bearer SubjectConfirmationData
_D = "Opt(Inst('saml2_tophat.saml:SubjectConfirmationData'))"
contract(AR_ + '._bearer_confirmed', types={'data': _D}, returns='Bool',
         ensures=[('no-data', 'implies(data is None, result is False)'),
                  ('C04-nooa', 'implies(result is True and truthy(data.not_on_or_after), '
                               'NOW <= epoch(data.not_on_or_after) + self.timeslack)'),
                  ('C04-nb', 'implies(result is True and truthy(data.not_before), epoch(data.not_before) <= NOW + self.timeslack)'),
                  ('C04-order', 'implies(result is True and truthy(data.not_before) and truthy(data.not_on_or_after), '
                                'epoch(data.not_on_or_after) >= epoch(data.not_before))'),
                  # C05: a bearer confirmation that names a request names an outstanding one (unless unsolicited allowed)
                  ('C05-solicited', 'implies(result is True and truthy(self.asynchop) and old(self.came_from) is None '
                                    'and truthy(data.in_response_to) and not truthy(self.allow_unsolicited), '
                                    'data.in_response_to in self.outstanding_queries)'),
                  ('came-from', 'implies(result is True and truthy(self.asynchop) and old(self.came_from) is None '
                                'and truthy(data.in_response_to) and data.in_response_to in self.outstanding_queries, '
                                'self.came_from == self.outstanding_queries[data.in_response_to])'),
                  ('came-from-frame', 'implies(not (truthy(self.asynchop) and old(self.came_from) is None '
                                      'and data is not None and truthy(data.in_response_to) '
                                      'and data.in_response_to in self.outstanding_queries), '
                                      'self.came_from == old(self.came_from))')],
         raises={'ResponseLifetimeExceed': 'data is not None and truthy(data.not_on_or_after) and '
                                           'NOW > epoch(data.not_on_or_after) + self.timeslack',
                 'ToEarly': 'data is not None and truthy(data.not_before) and epoch(data.not_before) > NOW + self.timeslack',
                 'Exception': 'True'},
         modifies=['self.came_from'],
         clauses_from={'C04': ['C04-nooa', 'C04-nb', 'C04-order', 'raises.ResponseLifetimeExceed', 'raises.ToEarly'],
                       'C05': ['C05-solicited']})


# ================================================================================================ C06
# The expected class per standard second-level code comes from the *documented naming* (Status + URI suffix,
# case-insensitively), not from the table in the code: a swapped or missing table entry fails these clauses.
def _expected_status_classes():
    from pyvc import front
    samlp = front.module_obj('saml2_tophat.samlp')
    resp = front.module_obj('saml2_tophat.response')
    by_lower = {n.lower(): n for n in vars(resp) if isinstance(vars(resp)[n], type)}
    out = {}
    for name in sorted(vars(samlp)):
        if name.startswith('STATUS_') and name not in ('STATUS_SUCCESS', 'STATUS_REQUESTER'):
            uri = getattr(samlp, name)
            suffix = uri.rsplit(':', 1)[1]
            cls = by_lower.get(('Status' + suffix).lower())
            if cls:
                out[uri] = cls
    return out


_SUCCESS = repr(__import__('pyvc.front', fromlist=['x']).module_obj('saml2_tophat.samlp').STATUS_SUCCESS)
_ST = 'self.response.status'
_TOP = 'self.response.status.status_code.value'
_SEC_PRESENT = 'truthy(self.response.status.status_code.status_code)'
_SEC = 'self.response.status.status_code.status_code.value'
_NOT_OK = '(truthy(%s) and %s is not None and %s != %s)' % (_ST, 'self.response.status.status_code', _TOP, _SUCCESS)
_exp = _expected_status_classes()
_status_raises = {}
for _uri, _cls in sorted(_exp.items()):
    _status_raises[_cls] = '%s and %s and %s == %r' % (_NOT_OK, _SEC_PRESENT, _SEC, _uri)
_status_raises['StatusError'] = ('not truthy(%s) or (%s and (not %s or not (%s)))'
                                 % (_ST, _NOT_OK, _SEC_PRESENT, ' or '.join('%s == %r' % (_SEC, u) for u in sorted(_exp))))
_status_raises['AttributeError'] = 'truthy(%s) and self.response.status.status_code is None' % _ST

contract(SR + '.status_ok', returns='Bool',
         requires=['self.response is not None'],
         ensures=[('true', 'result is True'),
                  ('C06-success', 'truthy(%s) and %s == %s' % (_ST, _TOP, _SUCCESS))],
         raises=_status_raises, modifies=[],
         clauses_from={'C06': ['C06-success'] + ['raises.' + c for c in _status_raises]})

RE_ERR = __import__('pyvc.front', fromlist=['x']).cls_qual(__import__('re').error)
ghost_decl = __import__('pyvc.state', fromlist=['ghost']).ghost
ghost_decl('re_match', ['Val', 'Val'], 'Bool')      # E-REGEX: re.search(pattern, string) finds a match
contract('re:search', trusted=True, pure=True, params=['pattern', 'string', 'flags'], defaults={'flags': 0},
         ensures=['truthy(result) == re_match(pattern, string)'], raises={RE_ERR: 'True', 'TypeError': 'True'},
         assumptions=['E-REGEX'])

contract(SR + '._validate_destination', types={'self': "Inst('%s')" % AR_}, returns='Bool',
         requires=['self.response is not None'],
         lets={'dest': 'self.response.destination', 'rx': 'self.valid_destination_regex'},
         ensures=[('C05-destination', 'implies(result is True and truthy(dest), '
                                      '(rx is not None and re_match(rx, dest)) or (rx is None and dest in self.return_addrs))'),
                  ('accept-absent', 'implies(not truthy(dest), result is True)'),
                  ('accept-own', 'implies(truthy(dest) and rx is None and self.return_addrs is not None '
                                 'and dest in self.return_addrs, result is True)')],
         raises={RE_ERR: 'truthy(dest) and rx is not None', 'TypeError': 'truthy(dest)'},
         modifies=[], clauses_from={'C05': ['C05-destination']})

contract(SR + '._verify', types={'self': "Inst('%s')" % AR_},
         returns="Opt(Inst('%s'))" % AR_,
         lets={'dest': 'self.response.destination', 'rx': 'self.valid_destination_regex', 'ii': 'self.response.issue_instant'},
         ensures=[('self-or-none', 'result is None or result == self'),
                  ('response-present', 'implies(result is not None, self.response is not None)'),
                  ('C06-version', "implies(result is not None, self.response.version == '2.0')"),
                  ('C06-status', 'implies(result is not None, truthy(%s) and %s == %s)' % (_ST, _TOP, _SUCCESS)),
                  ('C04-issue-instant', 'implies(result is not None, epoch(ii) - NOW <= 86400 + self.timeslack '
                                        'and NOW - epoch(ii) <= 86400 + self.timeslack)'),
                  ('C05-destination', 'implies(result is not None and truthy(self.asynchop) and truthy(dest), '
                                      '(rx is not None and re_match(rx, dest)) or (rx is None and dest in self.return_addrs))'),
                  ('C05-request-id', 'implies(result is not None and truthy(self.request_id) and truthy(self.in_response_to), '
                                     'self.in_response_to == self.request_id)')],
         raises={'RequestVersionTooLow': "self.response.version != '2.0'",
                 'RequestVersionTooHigh': "self.response.version != '2.0'",
                 'ValueError': 'True', 'TypeError': 'True', 'AttributeError': 'True',
                 'AssertionError': 'True',
                 'StatusError': 'not (truthy(%s) and %s is not None and %s == %s)'
                                % (_ST, 'self.response.status.status_code', _TOP, _SUCCESS),
                 RE_ERR: 'truthy(dest) and rx is not None'},
         modifies=[],
         clauses_from={'C06': ['C06-version', 'C06-status', 'raises.StatusError'], 'C04': ['C04-issue-instant'],
                       'C05': ['C05-destination', 'C05-request-id']})


# ================================================================================================ loading (C05, C02)
contract(SR + '._clear', inline=True)

contract(SR + '._postamble', returns="Inst('%s')" % SR,
         ensures=[('self', 'result == self'),
                  ('valid-or-cleared', 'self.response is None or (self.response == old(self.response) '
                                       'and schema_valid(self.response) '
                                       'and self.in_response_to == self.response.in_response_to)'),
                  ('cleared-means-invalid', 'implies(self.response is None, not schema_valid(old(self.response)))')],
         raises={'IncorrectlySigned': 'not truthy(self.response)',
                 'ValueError': 'not schema_valid(self.response)', 'KeyError': 'not schema_valid(self.response)',
                 'AttributeError': 'not schema_valid(self.response)', 'TypeError': 'not schema_valid(self.response)'},
         modifies=['self.in_response_to', 'self.xmlstr', 'self.name_id', 'self.response', 'self.not_on_or_after'],
         clauses_from={'C13': ['valid-or-cleared']})

_SIGCHK = ('implies(self.response is not None and truthy(self.response.signature) and not truthy(self.do_not_verify) '
           'and truthy(self.response.id), SIG_OK(self.sec, xmldata, self.response, cname(self.response), None))')
contract(SR + '._loads', types={'self': "Inst('%s')" % AR_, 'xmldata': 'Union(Str, Bytes)', 'decode': 'Any', 'origxml': 'Any'},
         returns="Inst('%s')" % AR_,
         ensures=[('self', 'result == self'),
                  ('origxml', 'implies(truthy(origxml), self.origxml == origxml)'),
                  ('is-response', 'is_resp(xmldata)'),
                  ('C02-required-response-signature', 'implies(truthy(self.require_response_signature), RP(xmldata))'),
                  ('C01-response-signature-verified', _SIGCHK),
                  ('signature-iff', 'implies(self.response is not None, truthy(self.response.signature) == RP(xmldata))'),
                  ('C13-valid-or-cleared', 'self.response is None or (schema_valid(self.response) and '
                                           'self.in_response_to == self.response.in_response_to and fresh(self.response))')],
         raises={'TypeError': 'True', 'SigverError': 'True', 'IncorrectlySigned': 'True', 'Exception': 'True'},
         modifies=['self.xmlstr', 'self.origxml', 'self.response', 'self.in_response_to', 'self.name_id',
                   'self.not_on_or_after'],
         clauses_from={'C02': ['C02-required-response-signature'], 'C01': ['C01-response-signature-verified'],
                       # C20: a verification site -- a response signature that is present reaches the tool, and only the tool's OK lets it pass
                       'C20': ['C01-response-signature-verified'],
                       'C13': ['C13-valid-or-cleared']})

_ALLSC = ('forall(lambda a: forall(lambda j: as_type(%s.assertion, "List(Inst(\'saml2_tophat.saml:Assertion\'))")[a].subject.subject_confirmation[j]'
          '.subject_confirmation_data is None or as_type(%s.assertion, "List(Inst(\'saml2_tophat.saml:Assertion\'))")[a].subject.subject_confirmation[j]'
          '.subject_confirmation_data.in_response_to == %s, 0, '
          'len(as_type(%s.assertion, "List(Inst(\'saml2_tophat.saml:Assertion\'))")[a].subject.subject_confirmation)), 0, '
          'len(as_type(%s.assertion, "List(Inst(\'saml2_tophat.saml:Assertion\'))")))')
# the assertions the check runs over: the given list, or (default) the response's plain assertions
_AL = 'as_type(ite(assertions is None, as_type(self.response, "Inst(\'saml2_tophat.samlp:Response\')").assertion, assertions), "List(Inst(\'saml2_tophat.saml:Assertion\'))")'
_ALLSC_L = ('forall(lambda a: forall(lambda j: AL[a].subject.subject_confirmation[j].subject_confirmation_data is None or '
            'AL[a].subject.subject_confirmation[j].subject_confirmation_data.in_response_to == irp, 0, '
            'len(AL[a].subject.subject_confirmation)), 0, len(AL))')
contract(AR_ + '.check_subject_confirmation_in_response_to',
         types={'irp': 'Opt(Str)', 'assertions': "Opt(List(Inst('saml2_tophat.saml:Assertion')))"}, returns='Bool',
         lets={'AL': _AL},
         ensures=[('C05-all-confirmations', 'implies(result is True, %s)' % _ALLSC_L)],
         raises={'AttributeError': '(assertions is None and (self.response is None or not isinstance(self.response, "saml2_tophat.samlp:Response"))) or '
                                   'exists(lambda a: AL[a].subject is None, 0, len(AL))'},
         modifies=[],
         loops={0: {'inv': ['forall(lambda a: forall(lambda j: seq0[a].subject.subject_confirmation[j].subject_confirmation_data is None or '
                            'seq0[a].subject.subject_confirmation[j].subject_confirmation_data'
                            '.in_response_to == irp, 0, len(seq0[a].subject.subject_confirmation)), 0, i0)']},
                1: {'inv': ['forall(lambda j: seq1[j].subject_confirmation_data is None or '
                            'seq1[j].subject_confirmation_data.in_response_to == irp, 0, i1)']}},
         clauses_from={'C05': ['C05-all-confirmations'], 'C17': ['C05-all-confirmations']})

contract(AR_ + '.loads', types={'xmldata': 'Union(Str, Bytes)', 'decode': 'Any', 'origxml': 'Any'},
         returns="Inst('%s')" % AR_,
         ensures=[('self', 'result == self'),
                  ('origxml', 'implies(truthy(origxml), self.origxml == origxml)'),
                  ('is-response', 'is_resp(xmldata)'),
                  ('C02-required-response-signature', 'implies(truthy(self.require_response_signature), RP(xmldata))'),
                  ('C01-response-signature-verified', _SIGCHK),
                  ('signature-iff', 'implies(self.response is not None, truthy(self.response.signature) == RP(xmldata))'),
                  ('C13-valid-or-cleared', 'self.response is None or (schema_valid(self.response) and '
                                           'self.in_response_to == self.response.in_response_to and fresh(self.response))'),
                  # C05: unless unsolicited responses are allowed, InResponseTo names an outstanding request ...
                  ('C05-solicited', 'implies(truthy(self.asynchop) and not truthy(self.allow_unsolicited), '
                                    'self.in_response_to in self.outstanding_queries)'),
                  # ... and every confirmation that names a request names that same one
                  ('C05-confirmations-name-the-same-request',
                   'implies(truthy(self.asynchop) and self.in_response_to in self.outstanding_queries and self.response is not None '
                   'and isinstance(self.response, "saml2_tophat.samlp:Response") '
                   'and forall(lambda a: ASS(self.response)[a].subject is not None, 0, len(ASS(self.response))), '
                   'forall(lambda a: forall(lambda j: '
                   'implies(SCS(self.response, a)[j].subject_confirmation_data is not None and '
                   '        truthy(SCS(self.response, a)[j].subject_confirmation_data.in_response_to), '
                   '        SCS(self.response, a)[j].subject_confirmation_data.in_response_to == self.in_response_to), '
                   '0, len(SCS(self.response, a))), 0, len(ASS(self.response))))')],
         raises={'TypeError': 'True', 'SigverError': 'True', 'IncorrectlySigned': 'True', 'UnsolicitedResponse': 'True',
                 'Exception': 'True'},
         modifies=['self.xmlstr', 'self.origxml', 'self.response', 'self.in_response_to', 'self.name_id',
                   'self.not_on_or_after', 'self.came_from'],
         clauses_from={'C05': ['C05-solicited', 'C05-confirmations-name-the-same-request'],
                       'C02': ['C02-required-response-signature'], 'C01': ['C01-response-signature-verified']})
macro('ASS', ['r'], 'as_type(r.assertion, "List(Inst(\'saml2_tophat.saml:Assertion\'))")')
macro('SCS', ['r', 'a'], 'as_type(r.assertion, "List(Inst(\'saml2_tophat.saml:Assertion\'))")[a].subject.subject_confirmation')


# ================================================================================================ per-assertion checks (C01, C02, C04, C05, C17)
ASRT = "Inst('saml2_tophat.saml:Assertion')"
SCL = "List(Inst('saml2_tophat.saml:SubjectConfirmation'))"
contract(AR_ + '.verify_attesting_entity', types={'subject_confirmation': SCL}, returns='Bool', pure=True,
         ensures=[], raises={}, modifies=[], loops={0: {'inv': ['is_int(correct)'], 'modifies': []}}, local_types={'correct': 'Int'})

contract(AR_ + '.verify_recipient', types={'recipient': 'Opt(Str)'}, returns='Bool', pure=True,
         ensures=[# C05: with conversation information, a recipient is accepted only if it is the provider's entity id or one of its endpoints
                  ('C05-recipient', "implies(result is True and truthy(self.conv_info), "
                                    "(has_key(self.conv_info, 'entity_id') and recipient == self.conv_info['entity_id']) or "
                                    "(self.return_addrs is not None and recipient in self.return_addrs))"),
                  ('no-conversation-info', 'implies(not truthy(self.conv_info), result is True)')],
         raises={'TypeError': 'truthy(self.conv_info) and self.return_addrs is None'}, modifies=[],
         clauses_from={'C05': ['C05-recipient']})

macro('SCD', ['sc'], 'as_type(sc, "Inst(\'saml2_tophat.saml:SubjectConfirmation\')").subject_confirmation_data')
macro('BEARER_WINDOW', ['me', 'd'],
      'implies(truthy(d.not_on_or_after), NOW <= epoch(d.not_on_or_after) + me.timeslack) and '
      'implies(truthy(d.not_before), epoch(d.not_before) <= NOW + me.timeslack)')
macro('KEPT_OK', ['me', 'sc'],
      'SCD(sc) is not None and truthy(SCD(sc).recipient) and '
      "implies(truthy(me.conv_info), (has_key(me.conv_info, 'entity_id') and SCD(sc).recipient == me.conv_info['entity_id']) or "
      '(me.return_addrs is not None and SCD(sc).recipient in me.return_addrs)) and '
      'implies(as_type(sc, "Inst(\'saml2_tophat.saml:SubjectConfirmation\')").method == %r, BEARER_WINDOW(me, SCD(sc)))'
      % 'urn:oasis:names:tc:SAML:2.0:cm:bearer')

contract(AR_ + '._holder_of_key_confirmed', trusted=True, pure=True, params=['self', 'data'], returns='Bool',
         note='holder-of-key confirmation (KeyInfo presence among the extension elements); not part of the properties')
contract('saml2_tophat.sigver:SecurityContext.decrypt', types={'enctext': 'Union(Str, Bytes)', 'key_file': 'Opt(Str)', 'id_attr': 'Opt(Str)'},
         returns='Union(Str, Bytes)',
         ensures=[# C17 / C20: what no configured key decrypts comes back unchanged; anything else is non-empty output of the tool
                  ('C17-undecryptable-is-returned-unchanged', 'result == enctext or (is_str(result) and len(str_of(result)) > 0)')],
         raises={'XmlsecError': 'True', 'OSError': 'True', 'UnicodeDecodeError': 'True', 'TypeError': 'True', 'AttributeError': 'True'},
         modifies=[], loops={0: {'inv': [], 'modifies': []}},
         clauses_from={'C17': ['C17-undecryptable-is-returned-unchanged'], 'C20': ['C17-undecryptable-is-returned-unchanged']})
contract('saml2_tophat:SamlBase.to_string', trusted=True, pure=True, params=['self', 'nspair'], defaults={'nspair': None},
         returns='Bytes', assumptions=['E-ET'])
contract('saml2_tophat.saml:name_id_from_string', trusted=True, params=['xml_string'],
         returns="Opt(Inst('saml2_tophat.saml:NameID'))", raises={'Exception': 'True'}, assumptions=['E-PARSE'])

contract(AR_ + '.get_subject', returns="Opt(Inst('saml2_tophat.saml:NameID'))",
         requires=['self.assertion is not None'],
         lets={'SUBJ': 'self.assertion.subject'},
         ensures=[('subject-present', 'SUBJ is not None'),
                  # C05 / C04: every confirmation that is kept has an acceptable Recipient and, when bearer, is inside its window
                  ('C05-kept-confirmations-ok', 'forall(lambda k: KEPT_OK(self, SUBJ.subject_confirmation[k]), 0, len(SUBJ.subject_confirmation))'),
                  ('at-least-one-confirmation', 'len(SUBJ.subject_confirmation) > 0'),
                  ('name-id', 'result == self.name_id')],
         raises={'AssertionError': 'True', 'VerificationError': 'True', 'ValueError': 'True', 'AttributeError': 'True',
                 'ResponseLifetimeExceed': 'True', 'ToEarly': 'True', 'Exception': 'True'},
         modifies=['self.came_from', 'self.name_id', 'self.assertion.subject.subject_confirmation'],
         local_types={'subjconf': SCL},
         loops={0: {'inv': ['forall(lambda k: KEPT_OK(self, subjconf[k]), 0, len(subjconf))'],
                    'modifies': ['self.came_from', 'list(subjconf)']}},
         clauses_from={'C05': ['C05-kept-confirmations-ok'], 'C04': ['C05-kept-confirmations-ok']})

# what "this assertion passed every per-assertion check" means: the post of _assertion, as a macro so that
# parse_assertion / verify can state it for every assertion they keep
macro('ASSERTION_CHECKED', ['me', 'a', 'sigdoc', 'sig_verified_elsewhere'],
      # C02: required signature present; C01: a present signature verified (here, or by decrypt_assertions when flagged)
      'implies(truthy(me.require_signature), truthy(a.signature)) and '
      'implies(truthy(a.signature) and not truthy(sig_verified_elsewhere) and me.do_not_verify is False and truthy(a.id), '
      '        SIG_OK(me.sec, sigdoc, a, cname(a), None)) and '
      # C04 / C05: validity window and audience of Conditions
      'implies(not truthy(me.test) and a.conditions is not None and truthy(a.conditions.not_on_or_after), '
      '        NOW <= epoch(a.conditions.not_on_or_after) + me.timeslack) and '
      'implies(not truthy(me.test) and a.conditions is not None and truthy(a.conditions.not_before), '
      '        epoch(a.conditions.not_before) <= NOW + me.timeslack) and '
      'implies(not truthy(me.test) and a.conditions is not None and truthy(a.conditions.audience_restriction), '
      '        forall(lambda i: names(a.conditions.audience_restriction[i], me.entity_id), 0, len(a.conditions.audience_restriction))) and '
      # C05: subject confirmations
      'a.subject is not None and len(a.subject.subject_confirmation) > 0 and '
      'forall(lambda k: KEPT_OK(me, a.subject.subject_confirmation[k]), 0, len(a.subject.subject_confirmation))')

contract(AR_ + '._assertion', types={'assertion': ASRT, 'verified': 'Any'}, returns='Bool',
         requires=['is_str(self.xmlstr) or is_bytes(self.xmlstr)'],
         ensures=[('true', 'result is True'),
                  ('current', 'self.assertion == assertion'),
                  ('C02-required-assertion-signature', 'implies(truthy(old(self.require_signature)), truthy(assertion.signature))'),
                  ('C01-assertion-signature-verified',
                   'implies(truthy(assertion.signature) and not truthy(verified) and self.do_not_verify is False and truthy(assertion.id), '
                   'SIG_OK(self.sec, self.xmlstr, assertion, cname(assertion), None))'),
                  ('C01-assertion-reference-own-id',
                   'implies(truthy(assertion.signature) and not truthy(verified) and self.do_not_verify is False, REF_OK(assertion))'),
                  ('C01-assertion-one-enveloped-signature-of-its-own',
                   'implies(truthy(assertion.signature) and not truthy(verified) and self.do_not_verify is False, '
                   'ENVELOPED(DOC(self.xmlstr), assertion.id, self.sec.id_attr))'),
                  ('C04-conditions-window',
                   'implies(not truthy(self.test) and assertion.conditions is not None and truthy(assertion.conditions.not_on_or_after), '
                   'NOW <= epoch(assertion.conditions.not_on_or_after) + self.timeslack) and '
                   'implies(not truthy(self.test) and assertion.conditions is not None and truthy(assertion.conditions.not_before), '
                   'epoch(assertion.conditions.not_before) <= NOW + self.timeslack)'),
                  ('C04-session-window',
                   "implies(self.context == 'AuthnReq' and len(assertion.authn_statement) == 1 and "
                   "truthy(assertion.authn_statement[0].session_not_on_or_after), "
                   "NOW <= epoch(assertion.authn_statement[0].session_not_on_or_after) + self.timeslack)"),
                  ('C05-audience',
                   'implies(not truthy(self.test) and assertion.conditions is not None and truthy(assertion.conditions.audience_restriction), '
                   'forall(lambda i: names(assertion.conditions.audience_restriction[i], self.entity_id), 0, '
                   'len(assertion.conditions.audience_restriction)))'),
                  ('C05-confirmations',
                   'assertion.subject is not None and len(assertion.subject.subject_confirmation) > 0 and '
                   'forall(lambda k: KEPT_OK(self, assertion.subject.subject_confirmation[k]), 0, len(assertion.subject.subject_confirmation))'),
                  ('C05-solicited', 'implies(truthy(self.asynchop) and not truthy(self.allow_unsolicited), self.came_from is not None)')],
         raises={'SignatureError': 'True', 'SigverError': 'True', 'VerificationError': 'True', 'AssertionError': 'True',
                 'Exception': 'True'},
         modifies=['self.assertion', 'self.came_from', 'self.name_id', 'self.not_on_or_after', 'self.session_not_on_or_after',
                   'assertion.subject.subject_confirmation'],
         clauses_from={'C02': ['C02-required-assertion-signature'], 'C01': ['C01-assertion-signature-verified', 'C01-assertion-reference-own-id', 'C01-assertion-one-enveloped-signature-of-its-own'],
                       'C20': ['C01-assertion-signature-verified'],
                       'C04': ['C04-conditions-window', 'C04-session-window'],
                       'C05': ['C05-audience', 'C05-confirmations', 'C05-solicited'],
                       'C17': ['C04-conditions-window', 'C05-audience', 'C05-confirmations']})


# ================================================================================================ verify / parse_assertion (C02, C17)
_ALL_CHECKED = 'forall(lambda k: ASSERTION_CHECKED(self, self.assertions[k], self.xmlstr, False), 0, len(self.assertions))'
contract(AR_ + '.parse_assertion', types={'keys': 'Any'}, returns='Bool',
         ensures=[('C02/C17-every-kept-assertion-was-checked', 'implies(result is True, %s)' % _ALL_CHECKED),
                  ('flags-untouched', 'self.require_signature == old(self.require_signature) and '
                                      'self.require_response_signature == old(self.require_response_signature) and '
                                      'self.require_signature_or_response_signature == old(self.require_signature_or_response_signature)')],
         raises={'Exception': 'True'},
         modifies=['self.assertions', 'self.assertion', 'self.ava', 'self.xmlstr', 'self.came_from', 'self.name_id',
                   'self.not_on_or_after', 'self.session_not_on_or_after', '*.assertion', '*.encrypted_assertion',
                   '*.subject_confirmation', 'lists', 'dicts'],
         note='ASSUMED in this session (two decrypt while-loops over re-parsed documents, list surgery on advice elements): every '
              'assertion that ends up in self.assertions -- plain or decrypted -- went through _assertion(), whose contract is '
              'verified; decrypted ones had their signature checked by decrypt_assertions() against the decrypted text that '
              'becomes self.xmlstr')

contract(AR_ + '.verify', types={'keys': 'Any'}, returns="Opt(Inst('%s'))" % AR_,
         ensures=[('self-or-none', 'result is None or result == self'),
                  ('response-present', 'implies(result is not None, self.response is not None and self.response == old(self.response))'),
                  ('C06-success-and-version', "implies(result is not None, self.response.version == '2.0' and truthy(self.response.status) "
                                              "and self.response.status.status_code.value == %s)" % _SUCCESS),
                  ('C02-every-kept-assertion-was-checked',
                   'implies(result is not None and isinstance(self.response, "saml2_tophat.samlp:Response"), %s)' % _ALL_CHECKED),
                  ('flags-untouched', 'self.require_signature == old(self.require_signature) and '
                                      'self.require_response_signature == old(self.require_response_signature) and '
                                      'self.require_signature_or_response_signature == old(self.require_signature_or_response_signature)')],
         raises={'Exception': 'True'},
         modifies=['self.assertions', 'self.assertion', 'self.ava', 'self.xmlstr', 'self.came_from', 'self.name_id',
                   'self.not_on_or_after', 'self.session_not_on_or_after', '*.assertion', '*.encrypted_assertion',
                   '*.subject_confirmation', 'lists', 'dicts'],
         clauses_from={'C02': ['C02-every-kept-assertion-was-checked'], 'C06': ['C06-success-and-version'],
                       'C17': ['C02-every-kept-assertion-was-checked']})


# ================================================================================================ C17: decrypted assertions
EA = "List(Inst('saml2_tophat.saml:EncryptedAssertion'))"
contract('saml2_tophat:extension_elements_to_elements', trusted=True, params=['extension_elements', 'schemas'],
         returns="List(Inst('saml2_tophat.saml:Assertion'))",
         ensures=['fresh(result)', 'forall(lambda j: typed(result[j], "Inst(\'saml2_tophat.saml:Assertion\')"), 0, len(result))'],
         assumptions=['E-PARSE'], modifies=[],
         note='ASSUMED: the typed elements found among the extension elements (for an EncryptedAssertion: the decrypted assertions)')
contract(AR_ + '.decrypt_assertions',
         types={'encrypted_assertions': EA, 'decr_txt': 'Union(Str, Bytes)', 'issuer': "Opt(Inst('saml2_tophat.saml:Issuer'))", 'verified': 'Bool'},
         returns="List(Inst('saml2_tophat.saml:Assertion'))", local_types={'res': "List(Inst('saml2_tophat.saml:Assertion'))"},
         ensures=[# C17: every decrypted assertion that carries a signature had it verified against the decrypted text -- unless the
                  # caller states it was verified before
                  ('C17-decrypted-signatures-verified',
                   'forall(lambda k: implies(truthy(result[k].signature) and not truthy(verified) and truthy(result[k].id), '
                   'SIG_OK(self.sec, decr_txt, result[k], cname(result[k]), issuer)), 0, len(result))')],
         raises={'SignatureError': 'True', 'SigverError': 'True', 'Exception': 'True'},
         modifies=[],
         loops={0: {'inv': ['forall(lambda k: implies(truthy(res[k].signature) and not truthy(verified) and truthy(res[k].id), '
                            'SIG_OK(self.sec, decr_txt, res[k], cname(res[k]), issuer)), 0, len(res))',
                            'forall(lambda k: typed(res[k], "Inst(\'saml2_tophat.saml:Assertion\')"), 0, len(res))'],
                    'modifies': ['list(res)']},
                1: {'inv': ['forall(lambda k: implies(truthy(res[k].signature) and not truthy(verified) and truthy(res[k].id), '
                            'SIG_OK(self.sec, decr_txt, res[k], cname(res[k]), issuer)), 0, len(res))',
                            'forall(lambda k: typed(res[k], "Inst(\'saml2_tophat.saml:Assertion\')"), 0, len(res))'],
                    'modifies': ['list(res)']}},
         clauses_from={'C17': ['C17-decrypted-signatures-verified'], 'C01': ['C17-decrypted-signatures-verified']})
