"""saml2_tophat.validate — time-window validators (C04) and schema validation (C13)."""
from pyvc.spec import contract

contract('time:gmtime', trusted=True, pure=True, params=['secs'], defaults={'secs': None},
         returns="Inst('time:struct_time')",
         ensures=['implies(secs is None, st_epoch(result) == NOW)',
                  'implies(is_int(secs), st_epoch(result) == int_of(secs))'], assumptions=['E-CLOCK'])
contract('time:strftime', trusted=True, pure=True, params=['format', 't'], defaults={'t': None}, returns='Str',
         assumptions=['E-CLOCK'])

contract('saml2_tophat.validate:validate_on_or_after',
         types={'not_on_or_after': 'Opt(Str)', 'slack': 'Int'},
         ensures=[('absent', 'implies(not truthy(not_on_or_after), result is False)'),
                  ('value', 'implies(truthy(not_on_or_after), result == epoch(not_on_or_after))'),
                  ('C04-window', 'implies(truthy(not_on_or_after), NOW <= epoch(not_on_or_after) + slack)')],
         raises={'ResponseLifetimeExceed': 'truthy(not_on_or_after) and NOW > epoch(not_on_or_after) + slack',
                 'ValueError': 'truthy(not_on_or_after) and not parsable(not_on_or_after)',
                 'AttributeError': 'truthy(not_on_or_after) and not parsable(not_on_or_after)'},
         modifies=[], clauses_from={'C04': ['C04-window', 'raises.ResponseLifetimeExceed']})

contract('saml2_tophat.validate:validate_before',
         types={'not_before': 'Opt(Str)', 'slack': 'Int'}, returns='Bool',
         ensures=[('true', 'result is True'),
                  ('C04-window', 'implies(truthy(not_before), epoch(not_before) <= NOW + slack)')],
         raises={'ToEarly': 'truthy(not_before) and epoch(not_before) > NOW + slack',
                 'ValueError': 'truthy(not_before) and not parsable(not_before)',
                 'AttributeError': 'truthy(not_before) and not parsable(not_before)'},
         modifies=[], clauses_from={'C04': ['C04-window', 'raises.ToEarly']})
