"""Declared fields (object invariants) of the non-schema classes the verified functions touch.  Assumed when a
field is read, checked (obligation `fieldtype[...]`) when a verified function writes it.  Schema classes need
no declaration: their members come from the generated c_children / c_attributes tables of the current tree."""
from pyvc.state import declare_class, ghost

RESP = "saml2_tophat.samlp:Response"
declare_class('saml2_tophat.response:StatusResponse', fields={
    'sec': "Inst('saml2_tophat.sigver:SecurityContext')",
    'return_addrs': 'Opt(List(Str))',
    'timeslack': 'Int',
    'request_id': 'Any',
    'xmlstr': 'Any',
    'origxml': 'Any',
    'name_id': "Opt(Inst('saml2_tophat.saml:NameID'))",
    'response': "Opt(Inst('saml2_tophat.samlp:StatusResponseType_'))",
    'not_on_or_after': 'Int',
    'in_response_to': 'Opt(Str)',
    'signature_check': 'Any',
    'require_signature': 'Any',
    'require_response_signature': 'Any',
    'require_signature_or_response_signature': 'Any',
    'not_signed': 'Bool',
    'asynchop': 'Any',
    'do_not_verify': 'Any',
    'conv_info': 'Dict(Str, Any)',
})
declare_class('saml2_tophat.response:AuthnResponse', fields={
    'entity_id': 'Str',
    'attribute_converters': 'Any',
    'outstanding_queries': 'Dict(Str, Any)',
    'context': 'Str',
    'came_from': 'Any',
    'ava': 'Any',
    'assertion': "Opt(Inst('saml2_tophat.saml:Assertion'))",
    'assertions': "List(Inst('saml2_tophat.saml:Assertion'))",
    'session_not_on_or_after': 'Int',
    'allow_unsolicited': 'Any',
    'test': 'Any',
    'allow_unknown_attributes': 'Any',
    'valid_destination_regex': 'Opt(Str)',
    'extension_schema': 'Dict(Str, Any)',
    'signature_check': "Func('saml2_tophat.sigver:SecurityContext.correctly_signed_response', recv_field='sec')",
})

ghost('md_nonempty', ['Val'], 'Bool')       # truthiness (= __len__ > 0) of a metadata store
declare_class('saml2_tophat.mdstore:MetadataStore', fields={}, truthy='md_nonempty')
declare_class('saml2_tophat.sigver:CertHandler', fields={})
declare_class('saml2_tophat.sigver:CryptoBackend', fields={})
declare_class('saml2_tophat.sigver:SecurityContext', fields={
    'id_attr': 'Str',
    # the xmlsec1 backend is the one in scope; CryptoBackendXMLSecurity (optional pyXMLSecurity) is not covered
    'crypto': "Inst('saml2_tophat.sigver:CryptoBackendXmlSec1')",
    'sec_backend': "Opt(Inst('saml2_tophat.sigver:RSACrypto'))",
    'key_file': 'Any', 'key_type': 'Any',
    'cert_file': 'Opt(Str)', 'cert_type': 'Str',
    'enc_key_files': 'Opt(List(Str))', 'enc_key_type': 'Any',
    'encryption_keypairs': 'Any', 'enc_cert_type': 'Any',
    'my_cert': 'Any',
    'cert_handler': "Inst('saml2_tophat.sigver:CertHandler')",
    'metadata': "Opt(Inst('saml2_tophat.mdstore:MetadataStore'))",
    'only_use_keys_in_metadata': 'Opt(Bool)',
    'template': 'Any', 'encrypt_key_type': 'Any',
    '_xmlsec_delete_tmpfiles': 'Any',
})

declare_class('builtins:BaseException', fields={'args': 'List(Any)'})
