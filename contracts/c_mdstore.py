"""saml2_tophat.mdstore — metadata lookups (C16, used by C03 / C09)."""
from pyvc.spec import contract, macro
from pyvc.state import declare_class, ghost

IMM = 'saml2_tophat.mdstore:InMemoryMetaData'
MDS = 'saml2_tophat.mdstore:MetadataStore'
ENTD = 'Dict(Str, Dict(Str, Any))'
declare_class('saml2_tophat.mdstore:MetaData', fields={'metadata': 'Any', 'to_old': 'List(Any)'})
declare_class(IMM, fields={'entity': ENTD, 'security': "Opt(Inst('saml2_tophat.sigver:SecurityContext'))", 'node_name': 'Opt(Str)',
                           'entities_descr': "Opt(Inst('saml2_tophat.md:EntitiesDescriptor'))", 'entity_descr': "Opt(Inst('saml2_tophat.md:EntityDescriptor'))",
                           'check_validity': 'Bool', 'filter': 'Any', 'cert': 'Opt(Str)'})
declare_class(MDS, fields={'metadata': "Dict(Str, Inst('%s'))" % IMM}, truthy='md_nonempty')

contract(IMM + '.__getitem__', inline=True)

ghost('imm_srv', ['Val', 'Val', 'Val', 'Val', 'Val'], 'Val')      # what one metadata source answers for (entity, role, service, binding)
contract(IMM + '.service', pure=True, trusted=True,
         params=['self', 'entity_id', 'typ', 'service', 'binding'], defaults={'binding': None}, returns='Opt(List(Any))',
         ensures=['result == imm_srv(self, entity_id, typ, service, binding)'], raises={'KeyError': 'True', 'TypeError': 'True'},
         note='ASSUMED (bounded stand-in mdstore_lookup): None = entity or role unknown to this source, [] = known but nothing for the '
              'binding, else the endpoint dicts this entity declares for that role, service and binding')

SRC = 'as_type(valmap(self.metadata)[k], "Inst(\'%s\')")' % IMM
contract(MDS + '.service', types={'entity_id': 'Opt(Str)', 'typ': 'Str', 'service': 'Str', 'binding': 'Opt(Str)'},
         returns='List(Any)',
         ensures=[# C16: what is returned is what ONE loaded source declares for exactly this entity, role, service and binding
                  ('C16-answer-of-a-loaded-source', 'truthy(result) and exists(lambda k: has_key(self.metadata, k) and '
                                                    'result == imm_srv(valmap(self.metadata)[k], entity_id, typ, service, binding), "Val")')],
         raises={
             # ... an unknown entity and a known entity lacking the binding are told apart
             'UnknownSystemEntity': 'forall(lambda k: implies(has_key(self.metadata, k), '
                                    'imm_srv(valmap(self.metadata)[k], entity_id, typ, service, binding) is None), "Val")',
             'UnsupportedBinding': 'exists(lambda k: has_key(self.metadata, k) and '
                                   'imm_srv(valmap(self.metadata)[k], entity_id, typ, service, binding) is not None, "Val") and '
                                   'forall(lambda k: implies(has_key(self.metadata, k), '
                                   'not truthy(imm_srv(valmap(self.metadata)[k], entity_id, typ, service, binding))), "Val")',
             'KeyError': 'True', 'TypeError': 'True'},
         modifies=[],
         loops={0: {'inv': ['is_bool(known_entity)',
                            'forall(lambda j: not truthy(imm_srv(valmap(self.metadata)[seq0[j]], entity_id, typ, service, binding)), 0, i0)',
                            'truthy(known_entity) == exists(lambda j: imm_srv(valmap(self.metadata)[seq0[j]], entity_id, typ, service, binding) is not None, 0, i0)'],
                    'modifies': []}},
         clauses_from={'C16': ['C16-answer-of-a-loaded-source', 'raises.UnknownSystemEntity', 'raises.UnsupportedBinding']})


# ------------------------------------------------------------------------------------------------ validity and signature (C16)
ED = "Inst('saml2_tophat.md:EntityDescriptor')"
EDS = "Inst('saml2_tophat.md:EntitiesDescriptor')"
ghost('to_dict_of', ['Val'], 'Val')
contract('saml2_tophat.mdie:to_dict', trusted=True, params=['_dict', 'onts', 'mdb_safe'], defaults={'mdb_safe': False},
         returns='Dict(Str, Any)', ensures=['fresh(result)'], assumptions=['E-PARSE'],
         note='object tree -> nested dicts (generic recursive converter over the schema tables)')
contract('saml2_tophat.mdstore:metadata_modules', trusted=True, pure=True, params=[], returns='Any')
contract('saml2_tophat.time_util:valid', variant_of='saml2_tophat.time_util:before', trusted=True, pure=True,
         params=['point'], types={'point': 'Union(Int, Str, NoneT)'}, returns='Bool',
         ensures=['implies(not truthy(point), result is True)',
                  'implies(truthy(point) and result is True, NOW <= ite(is_int(point), int_of(point), epoch(point)))',
                  'implies(truthy(point) and result is False, NOW >= ite(is_int(point), int_of(point), epoch(point)))'],
         raises={'ValueError': 'is_str(point) and not parsable(point)', 'AttributeError': 'is_str(point) and not parsable(point)'},
         note='time_util.valid is an alias of time_util.before (verified under that name)')

_EXPIRED = 'truthy(self.check_validity) and truthy(entity_descr.valid_until) and NOW > epoch(entity_descr.valid_until)'
contract(IMM + '.do_entity_descriptor', trusted=True, params=['self', 'entity_descr'], types={'entity_descr': ED},
         ensures=['implies(%s, keyset(self.entity) == old(keyset(self.entity)) and valmap(self.entity) == old(valmap(self.entity)))' % _EXPIRED],
         raises={'KeyError': 'True', 'AttributeError': 'True', 'TypeError': 'True', 'ValueError': 'True'},
         modifies=['dict(self.entity)', 'list(self.to_old)'],
         note='ASSUMED (bounded stand-in mdstore_lookup): an entity whose validUntil has passed is not stored.  Not verified: the '
              'protocol-support loops mutate the dict tree returned by to_dict(), whose freshness / aliasing is outside the contracts')

ghost('is_entities', ['Val'], 'Bool')
contract('saml2_tophat.md:entities_descriptor_from_string', trusted=True, params=['xml_string'], returns='Opt(%s)' % EDS,
         ensures=['implies(result is not None, fresh(result) and fresh(result.entity_descriptor))'], raises={'Exception': 'True'}, assumptions=['E-PARSE', 'E-DEFUSED'])
contract('saml2_tophat.md:entity_descriptor_from_string', trusted=True, params=['xml_string'], returns='Opt(%s)' % ED,
         ensures=['implies(result is not None, fresh(result))'], raises={'Exception': 'True'}, assumptions=['E-PARSE', 'E-DEFUSED'])

contract(IMM + '.parse', types={'xmlstr': 'Any'},
         ensures=[('C16-expired-document-not-loaded',
                   'implies(self.entities_descr is not None and truthy(self.check_validity) and schema_valid(self.entities_descr) and '
                   'truthy(self.entities_descr.valid_until) and parsable(self.entities_descr.valid_until) and '
                   'NOW > epoch(self.entities_descr.valid_until), False)')],
         raises={'Exception': 'True'},
         modifies=['self.entities_descr', 'self.entity_descr', 'dict(self.entity)', 'list(self.to_old)'],
         requires=['self.to_old != None'],
         loops={0: {'inv': [], 'modifies': ['dict(self.entity)', 'list(self.to_old)'], 'list_unchanged': False}},
         clauses_from={'C16': ['C16-expired-document-not-loaded']})

contract(IMM + '.signed', pure=True, returns='Bool',
         ensures=['vb(result) == ((self.entities_descr is not None and truthy(self.entities_descr.signature)) or '
                  '(self.entity_descr is not None and truthy(self.entity_descr.signature)))'], modifies=[])
contract(IMM + '.parse_and_check_signature', types={'txt': 'Union(Str, Bytes)'}, returns='Bool',
         requires=['self.to_old != None', 'implies(truthy(self.cert), self.security is not None)'],
         ensures=[# C16: with a verification certificate configured, signed metadata is reported good only if the tool verified it
                  ('C16-signed-metadata-verified',
                   'implies(result is True and truthy(self.cert) and ((self.entities_descr is not None and truthy(self.entities_descr.signature)) '
                   'or (self.entity_descr is not None and truthy(self.entity_descr.signature))), '
                   'XS_OK(DOC(txt), ite(truthy(self.node_name), self.node_name, "urn:oasis:names:tc:SAML:2.0:metadata:EntitiesDescriptor"), None, self.cert))')],
         raises={'Exception': 'True'},
         modifies=['self.entities_descr', 'self.entity_descr', 'dict(self.entity)', 'list(self.to_old)'],
         clauses_from={'C16': ['C16-signed-metadata-verified']})
