"""saml2_tophat.cache — SP session cache (C19).  The store is the dict model (E-SHELVE for the file-backed variant)."""
from pyvc.spec import contract, macro
from pyvc.state import declare_class, ghost

CA = 'saml2_tophat.cache:Cache'
NID = "Inst('saml2_tophat.saml:NameID')"
ENTRY = 'Tuple(Union(Int, Str, NoneT), Dict(Str, Any))'
declare_class(CA, fields={'_db': 'Dict(Str, Dict(Str, %s))' % ENTRY, '_sync': 'Any'})
ghost('code_of', ['Val'], 'Val')        # the storage key of a NameID (ident.code); injective on normalised NameIDs (C18, L18)
contract('saml2_tophat.ident:decode', trusted=True, params=['txt'], returns=NID, ensures=['fresh(result)'],
         note='ASSUMED here; the encoding itself is the subject of C18')

macro('ENTRY_OF', ['c', 'nid', 'eid'], 'as_type(as_type(c._db[code_of(nid)], "Dict(Str, %s)")[eid], "%s")' % (ENTRY, ENTRY))
macro('HAS_ENTRY', ['c', 'nid', 'eid'], 'has_key(c._db, code_of(nid)) and has_key(as_type(c._db[code_of(nid)], "Dict(Str, Any)"), eid)')

contract(CA + '.get', types={'name_id': NID, 'entity_id': 'Str', 'check_not_on_or_after': 'Any'},
         returns='Opt(Dict(Str, Any))',
         requires=['forall(lambda k: implies(has_key(self._db, k), typed(self._db[k], "Dict(Str, %s)")), "Val")' % ENTRY],
         lets={'TS': 'ENTRY_OF(self, name_id, entity_id)[0]'},
         ensures=[# C19: data is returned only for exactly this subject and source, and only if not expired when checking is on
                  ('C19-right-subject-and-source', 'HAS_ENTRY(self, name_id, entity_id)'),
                  ('C19-not-expired', 'implies(truthy(check_not_on_or_after) and is_int(TS) and truthy(TS), NOW <= int_of(TS))'),
                  ('C19-no-expiry-means-too-old', 'implies(truthy(check_not_on_or_after), truthy(TS))'),
                  ('C19-a-copy-of-what-was-stored',
                   'implies(result is not None, fresh(result) and forall(lambda k: implies(k != "name_id", '
                   'has_key(result, k) == has_key(ENTRY_OF(self, name_id, entity_id)[1], k) and '
                   'implies(has_key(result, k), result[k] == as_type(ENTRY_OF(self, name_id, entity_id)[1], "Dict(Str, Any)")[k])), "Val"))'),
                  ('C19-empty-means-none', 'implies(result is None, not truthy(ENTRY_OF(self, name_id, entity_id)[1]))')],
         raises={'KeyError': 'not HAS_ENTRY(self, name_id, entity_id)',
                 'ToOld': 'HAS_ENTRY(self, name_id, entity_id) and truthy(check_not_on_or_after) and '
                          '(not truthy(TS) or not is_int(TS) or NOW >= int_of(TS))',
                 'ValueError': 'True', 'AttributeError': 'True', 'TypeError': 'True'},
         modifies=[],
         clauses_from={'C19': ['C19-right-subject-and-source', 'C19-not-expired', 'C19-a-copy-of-what-was-stored', 'raises.ToOld']})

contract(CA + '.active', types={'name_id': NID, 'entity_id': 'Str'}, returns='Bool', pure=True,
         requires=['forall(lambda k: implies(has_key(self._db, k), typed(self._db[k], "Dict(Str, %s)")), "Val")' % ENTRY],
         lets={'TS': 'ENTRY_OF(self, name_id, entity_id)[0]'},
         ensures=[('C19-unknown-is-inactive', 'implies(not HAS_ENTRY(self, name_id, entity_id), result is False)'),
                  ('C19-reset-is-inactive', 'implies(HAS_ENTRY(self, name_id, entity_id) and not truthy(ENTRY_OF(self, name_id, entity_id)[1]), result is False)'),
                  ('C19-active-means-not-expired', 'implies(result is True and is_int(TS) and truthy(TS), NOW <= int_of(TS))')],
         raises={'ValueError': 'True', 'AttributeError': 'True', 'TypeError': 'True'}, modifies=[],
         clauses_from={'C19': ['C19-unknown-is-inactive', 'C19-reset-is-inactive', 'C19-active-means-not-expired']})

contract(CA + '.delete', types={'name_id': NID},
         ensures=[# C19: removal of a subject removes everything about it and nothing else
                  ('C19-subject-gone', 'not has_key(self._db, code_of(name_id))'),
                  ('C19-others-untouched', 'forall(lambda k: implies(k != code_of(name_id), has_key(self._db, k) == old(has_key(self._db, k)) and '
                                           'valmap(self._db)[k] == old(valmap(self._db))[k]), "Val")')],
         raises={'KeyError': 'not has_key(self._db, code_of(name_id))'},
         modifies=['dict(self._db)'],
         clauses_from={'C19': ['C19-subject-gone', 'C19-others-untouched']})

contract(CA + '.set', types={'name_id': NID, 'entity_id': 'Str', 'info': 'Dict(Str, Any)', 'not_on_or_after': 'Union(Int, Str, NoneT)'},
         requires=['forall(lambda k: implies(has_key(self._db, k), typed(self._db[k], "Dict(Str, %s)")), "Val")' % ENTRY,
                   # the store is tree shaped and the caller's dict is not part of it
                   'forall(lambda k: implies(has_key(self._db, k), self._db[k] != info and self._db[k] != self._db), "Val")',
                   'info != self._db'],
         ensures=[# C19: stored under exactly this subject and source, with the given expiry ...
                  ('C19-stored', 'HAS_ENTRY(self, name_id, entity_id) and ENTRY_OF(self, name_id, entity_id)[0] == not_on_or_after'),
                  ('C19-stored-content', 'forall(lambda k: implies(k != "name_id", '
                                         'has_key(ENTRY_OF(self, name_id, entity_id)[1], k) == has_key(info, k) and '
                                         'implies(has_key(info, k), as_type(ENTRY_OF(self, name_id, entity_id)[1], "Dict(Str, Any)")[k] == info[k])), "Val")'),
                  ('C19-stored-size', 'len(as_type(ENTRY_OF(self, name_id, entity_id)[1], "Dict(Str, Any)")) == len(info) and '
                                      'has_key(ENTRY_OF(self, name_id, entity_id)[1], "name_id") == has_key(info, "name_id")'),
                  # ... and nothing stored for another subject is touched
                  ('C19-other-subjects-untouched',
                   'forall(lambda k: implies(k != code_of(name_id), has_key(self._db, k) == old(has_key(self._db, k)) and '
                   'valmap(self._db)[k] == old(valmap(self._db))[k]), "Val")'),
                  ('C19-other-sources-of-the-subject-untouched',
                   'implies(old(has_key(self._db, code_of(name_id))), self._db[code_of(name_id)] == old(self._db[code_of(name_id)]) and '
                   'forall(lambda e: implies(e != entity_id, '
                   'has_key(as_type(self._db[code_of(name_id)], "Dict(Str, Any)"), e) == old(has_key(as_type(self._db[code_of(name_id)], "Dict(Str, Any)"), e)) and '
                   'valmap(as_type(self._db[code_of(name_id)], "Dict(Str, Any)"))[e] == old(valmap(as_type(self._db[code_of(name_id)], "Dict(Str, Any)")))[e]), "Val"))'),
                  ('caller-info-untouched', 'keyset(info) == old(keyset(info)) and valmap(info) == old(valmap(info))'),
                  # a subject seen for the first time gets a mapping of its own (no dict the caller holds becomes part of the store)
                  ('new-subject-mapping-is-fresh', 'implies(not old(has_key(self._db, code_of(name_id))), fresh(self._db[code_of(name_id)]))')],
         raises={},
         modifies=['dict(self._db)', 'dict(self._db[code_of(name_id)])'],
         clauses_from={'C19': ['C19-stored', 'C19-stored-content', 'C19-other-subjects-untouched',
                               'C19-other-sources-of-the-subject-untouched']})
contract(CA + '.reset', types={'name_id': NID, 'entity_id': 'Str'}, inline=False,
         requires=['forall(lambda k: implies(has_key(self._db, k), typed(self._db[k], "Dict(Str, %s)")), "Val")' % ENTRY,
                   'forall(lambda k: implies(has_key(self._db, k), self._db[k] != self._db), "Val")'],
         ensures=[# a reset source keeps an entry whose expiry is 0: get() with checking on raises ToOld for it (see get), so it never
                  # contributes attributes and is reported as stale
                  ('C19-reset-entry-present', 'HAS_ENTRY(self, name_id, entity_id)'),
                  ('C19-reset-entry-expiry-0', 'ENTRY_OF(self, name_id, entity_id)[0] == 0'),
                  ('C19-other-subjects-untouched',
                   'forall(lambda k: implies(k != code_of(name_id), has_key(self._db, k) == old(has_key(self._db, k)) and '
                   'valmap(self._db)[k] == old(valmap(self._db))[k]), "Val")')],
         raises={},
         modifies=['dict(self._db)', 'dict(self._db[code_of(name_id)])'],
         clauses_from={'C19': ['C19-reset-entry-present', 'C19-reset-entry-expiry-0', 'C19-other-subjects-untouched']})


# ================================================================================================ Population: the wrappers the client uses
PO = 'saml2_tophat.population:Population'
declare_class(PO, fields={'cache': "Inst('%s')" % CA})
_DB_OK = 'forall(lambda k: implies(has_key(self.cache._db, k), typed(self.cache._db[k], "Dict(Str, %s)")), "Val")' % ENTRY
contract(PO + '.get_info_from', types={'name_id': NID, 'entity_id': 'Str', 'check_not_on_or_after': 'Any'}, returns='Opt(Dict(Str, Any))',
         requires=[_DB_OK],
         lets={'TS': 'ENTRY_OF(self.cache, name_id, entity_id)[0]'},
         ensures=[('C19-right-subject-and-source', 'HAS_ENTRY(self.cache, name_id, entity_id)'),
                  ('C19-not-expired', 'implies(truthy(check_not_on_or_after) and is_int(TS) and truthy(TS), NOW <= int_of(TS))'),
                  ('C19-no-expiry-means-too-old', 'implies(truthy(check_not_on_or_after), truthy(TS))')],
         raises={'KeyError': 'not HAS_ENTRY(self.cache, name_id, entity_id)',
                 'saml2_tophat.cache:ToOld': 'HAS_ENTRY(self.cache, name_id, entity_id) and truthy(check_not_on_or_after) and '
                          '(not truthy(TS) or not is_int(TS) or NOW >= int_of(TS))',
                 'ValueError': 'True', 'AttributeError': 'True', 'TypeError': 'True'},
         modifies=[], clauses_from={'C19': ['C19-right-subject-and-source', 'C19-not-expired', 'raises.saml2_tophat.cache:ToOld']})
contract(PO + '.remove_person', types={'name_id': NID},
         ensures=[('C19-subject-gone', 'not has_key(self.cache._db, code_of(name_id))'),
                  ('C19-others-untouched', 'forall(lambda k: implies(k != code_of(name_id), has_key(self.cache._db, k) == old(has_key(self.cache._db, k)) and '
                                           'valmap(self.cache._db)[k] == old(valmap(self.cache._db))[k]), "Val")')],
         raises={'KeyError': 'not has_key(self.cache._db, code_of(name_id))'},
         modifies=['dict(self.cache._db)'], clauses_from={'C19': ['C19-subject-gone', 'C19-others-untouched']})
contract(CA + '.entities', types={'name_id': NID}, returns='List(Str)',
         requires=['forall(lambda k: implies(has_key(self._db, k), typed(self._db[k], "Dict(Str, %s)")), "Val")' % ENTRY],
         ensures=[('C19-exactly-the-sources-of-the-subject',
                   'fresh(result) and forall(lambda e: contains(seq(result), e) == '
                   'has_key(as_type(self._db[code_of(name_id)], "Dict(Str, Any)"), e), "Val")'),
                  ('C19-one-entry-per-source', 'len(result) == len(as_type(self._db[code_of(name_id)], "Dict(Str, Any)"))')],
         raises={'KeyError': 'not has_key(self._db, code_of(name_id))'}, modifies=[],
         clauses_from={'C19': ['C19-exactly-the-sources-of-the-subject']})
for _w in ('issuers_of_info', 'sources'):
    contract(PO + '.' + _w, types={'name_id': NID}, returns='List(Str)', requires=[_DB_OK],
             ensures=[('C19-exactly-the-sources-of-the-subject',
                       'fresh(result) and forall(lambda e: contains(seq(result), e) == '
                       'has_key(as_type(self.cache._db[code_of(name_id)], "Dict(Str, Any)"), e), "Val")')],
             raises={'KeyError': 'not has_key(self.cache._db, code_of(name_id))'}, modifies=[],
             clauses_from={'C19': ['C19-exactly-the-sources-of-the-subject']})
contract(PO + '.stale_sources_for_person', types={'name_id': NID, 'sources': 'Opt(List(Str))'}, returns='List(Str)', requires=[_DB_OK],
         ensures=[# only sources that were asked about (or, when none were named, sources the cache knows for this subject) are reported;
                  # WHICH of them are reported (those not active) is decided inside a filtering comprehension, which the engine
                  # over-approximates: not decided here, exercised by cache_history
                  ('C19-stale-sources-are-sources-of-the-subject',
                   'fresh(result) and forall(lambda e: implies(contains(seq(result), e), '
                   'ite(truthy(sources), contains(seq(sources), e), has_key(as_type(self.cache._db[code_of(name_id)], "Dict(Str, Any)"), e))), "Val")')],
         raises={'KeyError': 'True', 'ValueError': 'True', 'AttributeError': 'True', 'TypeError': 'True'}, modifies=[],
         clauses_from={'C19': ['C19-stale-sources-are-sources-of-the-subject']})
contract(CA + '.receivers', types={'name_id': NID}, returns='List(Str)',
         requires=['forall(lambda k: implies(has_key(self._db, k), typed(self._db[k], "Dict(Str, %s)")), "Val")' % ENTRY],
         ensures=[('C19-exactly-the-sources-of-the-subject',
                   'fresh(result) and forall(lambda e: contains(seq(result), e) == '
                   'has_key(as_type(self._db[code_of(name_id)], "Dict(Str, Any)"), e), "Val")')],
         raises={'KeyError': 'not has_key(self._db, code_of(name_id))'}, modifies=[],
         clauses_from={'C19': ['C19-exactly-the-sources-of-the-subject']})
contract(PO + '.get_entityid', types={'name_id': NID, 'source_id': 'Str', 'check_not_on_or_after': 'Any'}, returns='Any',
         requires=[_DB_OK],
         lets={'TS': 'ENTRY_OF(self.cache, name_id, source_id)[0]'},
         ensures=[# an identifier is read only out of the entry of exactly this subject and source, and never out of an expired one
                  ('C19-right-subject-and-source', 'result == "" or HAS_ENTRY(self.cache, name_id, source_id)'),
                  ('C19-unknown-yields-empty', 'implies(not HAS_ENTRY(self.cache, name_id, source_id), result == "")'),
                  ('C19-not-expired', 'implies(result != "" and truthy(check_not_on_or_after) and is_int(TS) and truthy(TS), NOW <= int_of(TS))')],
         raises={'saml2_tophat.cache:ToOld': 'HAS_ENTRY(self.cache, name_id, source_id) and truthy(check_not_on_or_after) and '
                          '(not truthy(TS) or not is_int(TS) or NOW >= int_of(TS))',
                 'AttributeError': 'True', 'TypeError': 'True'},
         modifies=[], clauses_from={'C19': ['C19-right-subject-and-source', 'C19-unknown-yields-empty', 'C19-not-expired']})
# Population.add_information_about_person, verified under the store's object invariant and a well-formed session dict.  Registered as a
# VARIANT: callers that are verified for other properties (C02: Base.parse_authn_request_response) keep using the weaker ASSUMED
# contract in c_entity.py, because they cannot establish these preconditions from the assumed AuthnResponse.session_info.
contract(PO + '.add_information_about_person[typed-store]', variant_of=PO + '.add_information_about_person',
         types={'session_info': 'Dict(Str, Any)'}, returns=NID,
         requires=[_DB_OK, 'typed(self.cache._db, "Dict(Str, Any)")',
                   'has_key(session_info, "name_id") and typed(session_info["name_id"], "%s")' % NID,
                   'has_key(session_info, "issuer") and is_str(session_info["issuer"])',
                   'has_key(session_info, "not_on_or_after") and (is_int(session_info["not_on_or_after"]) or is_str(session_info["not_on_or_after"]) '
                   'or session_info["not_on_or_after"] is None)',
                   'forall(lambda k: implies(has_key(self.cache._db, k), self.cache._db[k] != session_info and self.cache._db[k] != self.cache._db), "Val")',
                   'session_info != self.cache._db'],
         lets={'N0': 'session_info["name_id"]', 'I0': 'str_of(session_info["issuer"])', 'E0': 'session_info["not_on_or_after"]'},
         ensures=[('C19-stored-for-the-subject-of-the-session', 'result == N0 and HAS_ENTRY(self.cache, as_type(N0, "%s"), I0)' % NID),
                  ('C19-stored-with-the-session-expiry', 'ENTRY_OF(self.cache, as_type(N0, "%s"), I0)[0] == E0' % NID),
                  ('C19-other-subjects-untouched',
                   'forall(lambda k: implies(k != code_of(N0), has_key(self.cache._db, k) == old(has_key(self.cache._db, k)) and '
                   'valmap(self.cache._db)[k] == old(valmap(self.cache._db))[k]), "Val")'),
                  # NOT stated: "the caller's session_info dict is untouched" (the defensive dict() copy) -- both solvers answer unknown
                  # for it; the frame below (only the store's dicts are written) is discharged
                  ],
         raises={'Exception': 'True'},
         modifies=['dict(self.cache._db)', 'dict(self.cache._db[code_of(session_info["name_id"])])'],
         clauses_from={'C19': ['C19-stored-for-the-subject-of-the-session', 'C19-stored-with-the-session-expiry', 'C19-other-subjects-untouched']})
contract(CA + '.subjects', types={}, returns='List(%s)' % NID,
         requires=['typed(self._db, "Dict(Str, Any)")'],
         ensures=[('C19-one-identifier-per-stored-subject', 'fresh(result) and len(result) == len(self._db)')],
         comps={0: {'elem': ['is_ref(res_i)'], 'type': NID}},
         raises={}, modifies=[], clauses_from={'C19': ['C19-one-identifier-per-stored-subject']})
