"""saml2_tophat.request — validation of incoming requests (C06, C10)."""
from pyvc.spec import contract
from pyvc.state import declare_class

RQ = 'saml2_tophat.request:Request'
RAT = "Inst('saml2_tophat.samlp:RequestAbstractType_')"
declare_class(RQ, fields={
    'sec': "Inst('saml2_tophat.sigver:SecurityContext')",
    'receiver_addrs': 'Opt(List(Str))',
    'timeslack': 'Int',
    'xmlstr': 'Any', 'name_id': 'Any',
    'message': 'Opt(%s)' % RAT,
    'not_on_or_after': 'Int',
    'attribute_converters': 'Any', 'binding': 'Any', 'relay_state': 'Any',
    'signature_check': 'Any',
})
SC = 'saml2_tophat.sigver:SecurityContext'
_KINDS = {  # request class -> (message type, security-context wrapper)
    'AuthnRequest': 'authn_request', 'LogoutRequest': 'logout_request', 'AttributeQuery': 'attribute_query',
    'AuthnQuery': 'authn_query', 'AuthzDecisionQuery': 'authz_decision_query',
    'NameIDMappingRequest': 'name_id_mapping_request', 'ManageNameIDRequest': 'manage_name_id_request',
    'AssertionIDRequest': 'assertion_id_request',
}
_variants = {}
for _cls, _mt in sorted(_KINDS.items()):
    _cq = 'saml2_tophat.request:' + _cls
    _wrap = SC + '.correctly_signed_' + _mt
    declare_class(_cq, fields={'signature_check': "Func('%s', recv_field='sec')" % _wrap})
    contract(_wrap, inline=True, types={'decoded_xml': 'Union(Str, Bytes)'})
    _vq = RQ + '._loads[%s]' % _cls
    _variants[('self', _cq)] = _vq
    contract(_vq, variant_of=RQ + '._loads',
             types={'self': "Inst('%s')" % _cq, 'xmldata': 'Union(Str, Bytes, NoneT)', 'binding': 'Any', 'origdoc': 'Any',
                    'must': 'Any', 'only_valid_cert': 'Any'},
             returns="Inst('%s')" % _cq,
             requires=['self.message is None'],
             ensures=[('self', 'result == self'), ('own-copy', 'self.xmlstr == xmldata'),
                      # C10: handed on only if it parses as the expected request type and passes schema validation
                      ('C10-parsed-and-valid', 'self.message is not None and is_msg(%r, xmldata) and schema_valid(self.message)' % _mt),
                      ('C10-must', 'implies(truthy(must), truthy(self.message.signature))'),
                      ('C10-verified', 'implies(truthy(self.message.signature) and truthy(self.message.id), '
                                       'SIG_OK(self.sec, xmldata, self.message, cname(self.message), None))')],
             raises={'TypeError': 'True', 'IncorrectlySigned': 'True', 'NotValid': 'True', 'ValueError': 'True',
                     'KeyError': 'True', 'AttributeError': 'True'},
             modifies=['self.xmlstr', 'self.message'],
             clauses_from={'C10': ['C10-parsed-and-valid', 'C10-must', 'C10-verified'], 'C13': ['C10-parsed-and-valid']})
contract(RQ + '._loads', trusted=True, variants=_variants,
         note='dispatch stub: the receiver class decides which specialised variant applies')

contract(RQ + '.issue_instant_ok', returns='Bool',
         requires=['self.message is not None'],
         lets={'ii': 'self.message.issue_instant'},
         ensures=[('C10-window', 'implies(result is True, epoch(ii) - NOW <= 86400 + self.timeslack '
                                 'and NOW - epoch(ii) <= 86400 + self.timeslack)'),
                  ('C10-accept', 'implies(epoch(ii) - NOW < 86400 + self.timeslack and NOW - epoch(ii) < 86400 + self.timeslack, '
                                 'result is True)')],
         raises={'ValueError': 'not parsable(ii)', 'AttributeError': 'not parsable(ii)', 'TypeError': 'not truthy(ii)'},
         modifies=[], clauses_from={'C10': ['C10-window']})

contract(RQ + '._verify', returns="Inst('%s')" % RQ,
         requires=['self.message is not None'],
         lets={'dest': 'self.message.destination', 'ii': 'self.message.issue_instant'},
         ensures=[('self', 'result == self'),
                  ('C06-version', "self.message.version == '2.0'"),
                  ('C10-destination-when-endpoints', 'implies(truthy(self.receiver_addrs), not truthy(dest) or dest in self.receiver_addrs)'),
                  # C10 as stated: a Destination, when present, is one of the receiver's own endpoints
                  ('C10-destination', 'not truthy(dest) or (self.receiver_addrs is not None and dest in self.receiver_addrs)'),
                  ('C10-issue-instant', 'epoch(ii) - NOW <= 86400 + self.timeslack and NOW - epoch(ii) <= 86400 + self.timeslack')],
         raises={'AssertionError': 'True', 'OtherError': 'truthy(dest)', 'ValueError': 'True', 'AttributeError': 'True',
                 'TypeError': 'True'},
         modifies=[],
         clauses_from={'C06': ['C06-version'], 'C10': ['C10-destination', 'C10-destination-when-endpoints', 'C10-issue-instant']})

contract(RQ + '.verify', returns="Opt(Inst('%s'))" % RQ,
         requires=['self.message is not None'],
         lets={'dest': 'self.message.destination', 'ii': 'self.message.issue_instant'},
         ensures=[('self-or-none', 'result is None or result == self'),
                  ('C06-version', "implies(result is not None, self.message.version == '2.0')"),
                  ('C10-destination-when-endpoints', 'implies(result is not None and truthy(self.receiver_addrs), '
                                                     'not truthy(dest) or dest in self.receiver_addrs)'),
                  ('C10-issue-instant', 'implies(result is not None, epoch(ii) - NOW <= 86400 + self.timeslack '
                                        'and NOW - epoch(ii) <= 86400 + self.timeslack)')],
         raises={'OtherError': 'truthy(dest)', 'ValueError': 'True', 'AttributeError': 'True', 'TypeError': 'True'},
         modifies=[], clauses_from={'C06': ['C06-version'], 'C10': ['C10-destination-when-endpoints', 'C10-issue-instant']})
