"""saml2_tophat.time_util — clock helpers (C04, C16, C19).  The datetime library is external (E-CLOCK)."""
from pyvc.spec import contract
from pyvc.state import ghost, declare_class

ghost('dt_epoch', ['Val'], 'Int')       # seconds denoted by a datetime value
ghost('td_secs', ['Val'], 'Int')        # seconds denoted by a timedelta value
declare_class('datetime:datetime', fields={})
declare_class('datetime:timedelta', fields={})
DT, TD, ST = "Inst('datetime:datetime')", "Inst('datetime:timedelta')", "Inst('time:struct_time')"

contract('datetime:datetime.utcnow', trusted=True, pure=True, params=[], returns=DT,
         ensures=['dt_epoch(result) == NOW'], assumptions=['E-CLOCK'])
contract('datetime:timedelta', trusted=True, pure=True,
         params=['self', 'days', 'seconds', 'microseconds', 'milliseconds', 'minutes', 'hours', 'weeks'],
         defaults=dict(days=0, seconds=0, microseconds=0, milliseconds=0, minutes=0, hours=0, weeks=0),
         types=dict(days='Int', seconds='Int', microseconds='Int', milliseconds='Int', minutes='Int', hours='Int', weeks='Int'),
         requires=['microseconds == 0', 'milliseconds == 0'],
         ensures=['td_secs(self) == days * 86400 + seconds + minutes * 60 + hours * 3600 + weeks * 604800'],
         assumptions=['E-CLOCK'])
contract('datetime:datetime.__add__', trusted=True, pure=True, params=['self', 'other'], returns=DT,
         types={'other': TD}, ensures=['dt_epoch(result) == dt_epoch(self) + td_secs(other)'], assumptions=['E-CLOCK'])
contract('datetime:datetime.__sub__', trusted=True, pure=True, params=['self', 'other'], returns=DT,
         types={'other': TD}, ensures=['dt_epoch(result) == dt_epoch(self) - td_secs(other)'], assumptions=['E-CLOCK'])
contract('datetime:datetime.timetuple', trusted=True, pure=True, params=['self'], returns=ST,
         ensures=['st_epoch(result) == dt_epoch(self)'], assumptions=['E-CLOCK'])

_TD_TYPES = dict(days='Int', seconds='Int', microseconds='Int', milliseconds='Int', minutes='Int', hours='Int', weeks='Int')
_DELTA = 'days * 86400 + seconds + minutes * 60 + hours * 3600 + weeks * 604800'
contract('saml2_tophat.time_util:time_in_a_while', types=_TD_TYPES, returns=DT, pure=True,
         requires=['microseconds == 0', 'milliseconds == 0'],
         ensures=[('value', 'dt_epoch(result) == NOW + ' + _DELTA)], modifies=[])
contract('saml2_tophat.time_util:time_a_while_ago', types=_TD_TYPES, returns=DT, pure=True,
         requires=['microseconds == 0', 'milliseconds == 0'],
         ensures=[('value', 'dt_epoch(result) == NOW - (' + _DELTA + ')')], modifies=[])
contract('saml2_tophat.time_util:shift_time', types={'dtime': DT, 'shift': 'Int'}, returns=DT, pure=True,
         ensures=[('value', 'dt_epoch(result) == dt_epoch(dtime) + shift')], modifies=[])

contract('saml2_tophat.time_util:later_than', types={'after': 'Opt(Str)', 'before': 'Opt(Str)'}, returns='Bool', pure=True,
         ensures=[('before-none', 'implies(before is None, result is True)'),
                  ('after-none', 'implies(after is None and before is not None, result is False)'),
                  ('later', 'implies(truthy(after) and truthy(before) and epoch(after) > epoch(before), result is True)'),
                  ('true-means-not-earlier', 'implies(truthy(after) and truthy(before) and result is True, '
                                             'epoch(after) >= epoch(before))')],
         raises={'ValueError': 'True', 'AttributeError': 'True', 'TypeError': '(truthy(after) and not parsable(after)) or (truthy(before) and not parsable(before))'
                              ' or (after is not None and not truthy(after)) or (before is not None and not truthy(before))'},
         modifies=[])

# before(point): "now <= point";  after(point): "now > point";  a falsy point counts as both (no limit)
_PT = 'Union(Int, Str, NoneT)'
contract('saml2_tophat.time_util:before', types={'point': _PT}, returns='Bool', pure=True,
         lets={'P': 'ite(is_int(point), int_of(point), epoch(point))'},
         ensures=[('no-point', 'implies(not truthy(point), result is True)'),
                  ('C16/C19-not-yet-passed', 'implies(truthy(point) and result is True, NOW <= P)'),
                  ('C16/C19-passed', 'implies(truthy(point) and result is False, NOW >= P)')],
         raises={'ValueError': 'is_str(point) and not parsable(point)', 'AttributeError': 'is_str(point) and not parsable(point)'}, modifies=[],
         clauses_from={'C16': ['C16/C19-not-yet-passed', 'C16/C19-passed'], 'C19': ['C16/C19-not-yet-passed', 'C16/C19-passed']})
contract('saml2_tophat.time_util:after', types={'point': _PT}, returns='Bool', pure=True,
         lets={'P': 'ite(is_int(point), int_of(point), epoch(point))'},
         ensures=[('no-point', 'implies(not truthy(point), result is True)'),
                  ('C19-passed', 'implies(truthy(point) and result is True, NOW >= P)'),
                  ('C19-not-yet-passed', 'implies(truthy(point) and result is False, NOW <= P)')],
         raises={'ValueError': 'True', 'AttributeError': 'True', 'TypeError': 'True'}, modifies=[],
         clauses_from={'C19': ['C19-passed', 'C19-not-yet-passed']})
