"""saml2_tophat.entity — endpoint selection (C09), request / response dispatch (C02, C10)."""
from pyvc.spec import contract, macro
from pyvc.state import declare_class, ghost

ENT = 'saml2_tophat.entity:Entity'
MDS = 'saml2_tophat.mdstore:MetadataStore'
declare_class('saml2_tophat.config:Config', fields={
    'preferred_binding': 'Dict(Str, List(Str))', 'accepted_time_diff': 'Opt(Int)', 'entityid': 'Any',
    'attribute_converters': 'Any', 'allow_unknown_attributes': 'Any', 'metadata': "Opt(Inst('%s'))" % MDS})
declare_class(ENT, fields={
    'entity_type': 'Str', 'config': "Inst('saml2_tophat.config:Config')",
    'metadata': "Inst('%s')" % MDS, 'sec': "Inst('saml2_tophat.sigver:SecurityContext')",
    'msg_cb': 'Any'})

# what the loaded metadata declares for (entity, service, binding, descriptor type): list of endpoint dicts (C16)
ghost('md_services', ['Val', 'Val', 'Val', 'Val', 'Val'], 'Seq')
SRV = 'List(Dict(Str, Any))'
for _svc in ['assertion_consumer_service', 'single_logout_service', 'manage_name_id_service', 'attribute_consuming_service',
             'single_sign_on_service']:
    contract('%s.%s' % (MDS, _svc), pure=True,
             types={'entity_id': 'Opt(Str)', 'binding': 'Opt(Str)'}, returns='Opt(%s)' % SRV,
             ensures=['result is not None', 'truthy(result)',
                      'seq(result) == md_services(self, entity_id, %r, binding, None)' % _svc,
                      'forall(lambda j: typed(result[j], "Dict(Str, Any)"), 0, len(result))'],
             raises={'UnknownSystemEntity': 'True', 'UnsupportedBinding': 'True'}, modifies=[],
             note='assumed here, the subject of C16: a non-empty list of the endpoints the metadata registers, else one of the two errors')

contract('saml2_tophat.mdstore:destinations', types={'srvs': SRV}, returns='List(Str)', pure=True,
         requires=['forall(lambda j: typed(srvs[j], "Dict(Str, Any)"), 0, len(srvs))'],
         ensures=[('same-length', 'len(result) == len(srvs)'),
                  ('locations', 'forall(lambda j: result[j] == srvs[j]["location"], 0, len(result))')],
         raises={'KeyError': 'True'}, modifies=[],
         comps={0: {'elem': ['res_i == as_type(src_i, "Dict(Str, Any)")["location"]'], 'type': 'Any'}})

REQ = "Opt(Inst('saml2_tophat.samlp:AuthnRequest'))"
_EID = 'ite(truthy(request) and not truthy(entity_id), vstr(strip(request.issuer.text)), entity_id)'
_REG = ('exists(lambda j: as_type(md_services(self.metadata, EID, %r, result[0], None)[j], "Dict(Str, Any)")["location"] == result[1], '
        '0, len(md_services(self.metadata, EID, %r, result[0], None)))')
_variants = {}
_RQT = {'assertion_consumer_service': REQ, 'single_logout_service': "Opt(Inst('saml2_tophat.samlp:LogoutRequest'))",
        'manage_name_id_service': "Opt(Inst('saml2_tophat.samlp:ManageNameIDRequest'))",
        'attribute_consuming_service': "Opt(Inst('saml2_tophat.samlp:AttributeQuery'))"}
for _svc, _urlattr in [('assertion_consumer_service', 'assertion_consumer_service_url'), ('single_logout_service', None),
                       ('manage_name_id_service', None), ('attribute_consuming_service', None)]:
    _vq = ENT + '.pick_binding[%s]' % _svc
    _variants[('service', _svc)] = _vq
    contract(_vq, variant_of=ENT + '.pick_binding', consts={'service': _svc},
             types={'bindings': 'Opt(List(Str))', 'descr_type': 'Opt(Str)', 'request': _RQT[_svc], 'entity_id': 'Opt(Str)'},
             returns='Tuple(Str, Any)',
             requires=(['request is None or cls_of(request) == cls_id(%r)' % _RQT[_svc][len("Opt(Inst('"):-3]] if _urlattr is None else []),
             lets={'EID': _EID},
             ensures=[
                 # C09: the destination is an endpoint the requester's metadata registers for this service and binding
                 ('C09-destination-is-registered', _REG % (_svc, _svc)),
                 ('C09-binding-was-offered', 'implies(bindings is not None, result[0] in bindings)'),
                 # a URL supplied in the request is honoured only if it equals a registered one
                 ('C09-supplied-url-only-if-registered',
                  ('implies(truthy(request) and truthy(request.%s), result[1] == request.%s)' % (_urlattr, _urlattr)) if _urlattr else 'True')],
             raises={'SAMLError': 'True', 'UnknownSystemEntity': 'True', 'KeyError': 'True', 'AttributeError': 'True',
                     'IndexError': 'True', 'TypeError': 'True'},
             modifies=[], loops={0: {'inv': [], 'modifies': []}, 1: {'inv': [], 'modifies': []}, 2: {'inv': [], 'modifies': []}},
             clauses_from={'C09': ['C09-destination-is-registered', 'C09-binding-was-offered',
                                   'C09-supplied-url-only-if-registered']})
contract(ENT + '.pick_binding', trusted=True, variants=_variants, note='dispatch stub for the constant-service variants')

AREQ = "Inst('saml2_tophat.samlp:AuthnRequest')"
contract(ENT + '.response_args[AuthnRequest]', variant_of=ENT + '.response_args',
         types={'message': AREQ, 'bindings': 'Opt(List(Str))', 'descr_type': 'Opt(Str)'}, returns='Dict(Str, Any)',
         requires=['cls_of(message) == cls_id("saml2_tophat.samlp:AuthnRequest")'],
         lets={'EID': 'vstr(strip(message.issuer.text))'},
         ensures=[
             # C09: the answer goes to a registered assertion-consumer endpoint of the requester, or -- only when the sole
             # binding is SOAP -- travels back on the request's own connection (empty destination)
             ('C09-destination-is-registered-or-soap',
              "(result['destination'] == '' and result['binding'] == %r) or "
              "exists(lambda j: as_type(md_services(self.metadata, EID, 'assertion_consumer_service', result['binding'], None)[j], "
              "\"Dict(Str, Any)\")['location'] == result['destination'], 0, "
              "len(md_services(self.metadata, EID, 'assertion_consumer_service', result['binding'], None)))"
              % 'urn:oasis:names:tc:SAML:2.0:bindings:SOAP'),
             ('C09-supplied-url-only-if-registered',
              "implies(result['destination'] != '' and truthy(message.assertion_consumer_service_url), "
              "result['destination'] == message.assertion_consumer_service_url)")],
         raises={'SAMLError': 'True', 'UnknownSystemEntity': 'True', 'KeyError': 'True', 'AttributeError': 'True',
                 'IndexError': 'True', 'TypeError': 'True'},
         modifies=[],
         clauses_from={'C09': ['C09-destination-is-registered-or-soap', 'C09-supplied-url-only-if-registered']})

for _cls, _svc in [('LogoutRequest', 'single_logout_service'), ('ManageNameIDRequest', 'manage_name_id_service'),
                   ('AttributeQuery', 'attribute_consuming_service')]:
    contract(ENT + '.response_args[%s]' % _cls, variant_of=ENT + '.response_args',
             types={'message': "Inst('saml2_tophat.samlp:%s')" % _cls, 'bindings': 'Opt(List(Str))', 'descr_type': 'Opt(Str)'},
             returns='Dict(Str, Any)',
             requires=['cls_of(message) == cls_id("saml2_tophat.samlp:%s")' % _cls],
             lets={'EID': 'vstr(strip(message.issuer.text))'},
             ensures=[('C09-destination-is-registered-or-soap',
                       "(result['destination'] == '' and result['binding'] == %r) or "
                       "exists(lambda j: as_type(md_services(self.metadata, EID, %r, result['binding'], None)[j], "
                       "\"Dict(Str, Any)\")['location'] == result['destination'], 0, "
                       "len(md_services(self.metadata, EID, %r, result['binding'], None)))"
                       % ('urn:oasis:names:tc:SAML:2.0:bindings:SOAP', _svc, _svc))],
             raises={'SAMLError': 'True', 'UnknownSystemEntity': 'True', 'KeyError': 'True', 'AttributeError': 'True',
                     'IndexError': 'True', 'TypeError': 'True'},
             modifies=[], clauses_from={'C09': ['C09-destination-is-registered-or-soap']})


# ================================================================================================ C02: Entity._parse_response
ARQ = 'saml2_tophat.response:AuthnResponse'
contract('saml2_tophat.response:StatusResponse.__init__', inline=True)
contract(ARQ + '.__init__', inline=True)
EPL = 'List(Tuple(Str, Str))'
_T = "as_type(cfg_attr(cfg, 'endpoints', ctx), 'Dict(Str, Any)')"
# the configured endpoint table has the documented shape for the service asked for: a list of (location, binding) pairs
# (no quantifier over keys: only the entry of that service is read)
macro('EP_TABLE_OK', ['cfg', 'ctx', 'svc'],
      "cfg_attr(cfg, 'endpoints', ctx) is None or (typed(cfg_attr(cfg, 'endpoints', ctx), 'Dict(Str, %s)') and "
      "implies(has_key(%s, svc), typed(%s[svc], '%s') and "
      "forall(lambda j: typed(as_type(%s[svc], '%s')[j], 'Tuple(Str, Str)'), 0, len(as_type(%s[svc], '%s')))))"
      % (EPL, _T, _T, EPL, _T, EPL, _T, EPL))
contract('saml2_tophat.config:Config.endpoint', types={'service': 'Str', 'binding': 'Opt(Str)', 'context': 'Opt(Str)'}, returns='List(Str)',
         requires=['EP_TABLE_OK(self, context, service)'],
         lets={'TAB': "as_type(cfg_attr(self, 'endpoints', context), 'Dict(Str, %s)')" % EPL},
         ensures=[# C10 / C05: only locations configured for this very service, and -- when a binding is asked for -- this very binding
                  ('C10-own-endpoints-of-that-service-and-binding',
                   "forall(lambda v: implies(contains(seq(result), v), cfg_attr(self, 'endpoints', context) is not None and has_key(TAB, service) and "
                   "exists(lambda j: TAB[service][j][0] == v and (binding is None or TAB[service][j][1] == binding), 0, len(TAB[service]))), 'Val')"),
                  ('fresh', 'fresh(result)')],
         modifies=[], local_types={'endps': 'Opt(Dict(Str, %s))' % EPL, 'spec': 'List(Str)', 'unspec': 'List(Str)'},
         loops={0: {'inv': ["forall(lambda v: implies(contains(seq(spec), v), exists(lambda j: seq0[j][0] == v and (binding is None or seq0[j][1] == binding) and j < i0, 0, len(seq0))), 'Val')",
                            'len(unspec) == 0'],
                    'modifies': ['list(spec)']}},
         clauses_from={'C10': ['C10-own-endpoints-of-that-service-and-binding'], 'C05': ['C10-own-endpoints-of-that-service-and-binding']},
         note='the configured table is assumed to have the documented shape (pairs); a malformed entry (ValueError branch) is excluded by the precondition')
# Entity.unravel picks the SOAP reader with getattr(soap, 'parse_soap_enveloped_saml_%s' % msgtype): one specialised variant per
# message type named by a constant at a call site; calls with a computed message type (Entity._parse_response /_parse_request pass
# response_cls.msgtype) are checked against the dispatch stub, which promises nothing about the decoded text.
_B_REDIRECT, _B_POST, _B_SOAP, _B_URI, _B_ART = ("'urn:oasis:names:tc:SAML:2.0:bindings:HTTP-Redirect'", "'urn:oasis:names:tc:SAML:2.0:bindings:HTTP-POST'",
                                                 "'urn:oasis:names:tc:SAML:2.0:bindings:SOAP'", "'urn:oasis:names:tc:SAML:2.0:bindings:URI'",
                                                 "'urn:oasis:names:tc:SAML:2.0:bindings:HTTP-Artifact'")
_KNOWN_B = '(binding is None or binding == %s or binding == %s or binding == %s or binding == %s or binding == %s)' % (
    _B_REDIRECT, _B_POST, _B_SOAP, _B_URI, _B_ART)
_TXT = 'ite(is_bytes(txt), str_of(as_type(txt, "Bytes")), str_of(as_type(txt, "Str")))'
_unravel_variants = {}
for _mt in ('response', 'request'):
    _vq = ENT + '.unravel[%s]' % _mt
    _unravel_variants[('msgtype', _mt)] = _vq
    contract(_vq, variant_of=ENT + '.unravel', consts={'msgtype': _mt},
             types={'txt': 'Union(Str, Bytes)', 'binding': 'Opt(Str)'}, returns='Union(Str, Bytes, NoneT)',
             ensures=[('C14-known-binding', _KNOWN_B),
                      # C14: the decoder applied is the inverse of the encoder of the same binding
                      ('C14-redirect-is-inflate-of-base64', 'implies(binding == %s, result == vbytes(inflate(unb64(%s))))' % (_B_REDIRECT, _TXT)),
                      ('C14-post-is-base64', 'implies(binding == %s or binding == %s, result == vbytes(unb64(%s)))' % (_B_POST, _B_ART, _TXT)),
                      ('C14-uri-is-identity', 'implies(binding is None or binding == %s, result == txt)' % _B_URI)],
             raises={'UnknownBinding': 'not %s' % _KNOWN_B, 'UnravelError': _KNOWN_B}, modifies=[],
             clauses_from={'C14': ['C14-known-binding', 'C14-redirect-is-inflate-of-base64', 'C14-post-is-base64', 'C14-uri-is-identity']})
contract(ENT + '.unravel', pure=True, trusted=True, params=['txt', 'binding', 'msgtype'], defaults={'msgtype': 'response'},
         returns='Union(Str, Bytes, NoneT)', raises={'UnknownBinding': 'True', 'UnravelError': 'True'}, variants=_unravel_variants,
         note='dispatch stub for calls with a computed message type: ASSUMED, promises nothing about the decoded text')

_KW = ['outstanding_queries', 'allow_unsolicited', 'want_assertions_signed',
       'want_assertions_or_response_signed', 'want_response_signed', 'return_addrs', 'entity_id', 'attribute_converters',
       'allow_unknown_attributes', 'conv_info', 'valid_destination_regex']
_KWSET = ' and '.join("has_key(kwargs, '%s')" % k for k in _KW)
_R = 'as_type(result, "Inst(\'%s\')")' % ARQ
contract(ENT + '._parse_response[AuthnResponse]', variant_of=ENT + '._parse_response',
         consts={'service': 'assertion_consumer_service'},
         types={'xmlstr': 'Any', 'response_cls': "Cls('%s')" % ARQ, 'binding': 'Opt(Str)', 'outstanding_certs': 'Any',
                'kwargs': 'Dict(Str, Any)'},
         returns="Opt(Inst('%s'))" % ARQ, feas_ms=60, merge_exits='raises',
         requires=[_KWSET, 'forall(lambda k: implies(has_key(kwargs, k), %s), "Val")' % ' or '.join("k == '%s'" % k for k in _KW),
                   "EP_TABLE_OK(self.config, self.entity_type, 'assertion_consumer_service')",
                   "is_str(kwargs['entity_id'])", "kwargs['valid_destination_regex'] is None or is_str(kwargs['valid_destination_regex'])",
                   "typed(kwargs['return_addrs'], 'Opt(List(Str))')", "kwargs['conv_info'] is None or typed(kwargs['conv_info'], 'Dict(Str, Any)')",
                   "kwargs['outstanding_queries'] is None or typed(kwargs['outstanding_queries'], 'Dict(Str, Any)')",
                   'outstanding_certs is None',
                   # the three signature options are configuration booleans (or unset)
                   "typed(kwargs['want_response_signed'], 'Opt(Bool)')", "typed(kwargs['want_assertions_signed'], 'Opt(Bool)')",
                   "typed(kwargs['want_assertions_or_response_signed'], 'Opt(Bool)')"],
         hints={('keys', 'kwargs'): _KW},
         lets={'Wr': "truthy(kwargs['want_response_signed'])", 'Wa': "truthy(kwargs['want_assertions_signed'])",
               'We': "truthy(kwargs['want_assertions_or_response_signed'])"},
         ensures=[
             # C02: an accepted response meets every enabled requirement with a signature that is present and verified ...
             ('C02-response-signature-required', 'implies(result is not None and Wr, truthy(%s.response.signature))' % _R),
             ('C02-assertion-signatures-required',
              'implies(result is not None and Wa and isinstance(%s.response, "saml2_tophat.samlp:Response"), '
              'forall(lambda k: truthy(%s.assertions[k].signature), 0, len(%s.assertions)))' % (_R, _R, _R)),
             ('C02-either-or',
              'implies(result is not None and We and isinstance(%s.response, "saml2_tophat.samlp:Response"), '
              'truthy(%s.response.signature) or forall(lambda k: truthy(%s.assertions[k].signature), 0, len(%s.assertions)))'
              % (_R, _R, _R, _R)),
             # ... and a signature that is present is never ignored, required or not
             ('C02-present-response-signature-verified',
              'implies(result is not None and truthy(%s.response.signature) and not truthy(%s.do_not_verify) and truthy(%s.response.id), '
              'SIG_OK(%s.sec, %s.origxml, %s.response, cname(%s.response), None))' % (_R, _R, _R, _R, _R, _R, _R)),
             ('C02-present-assertion-signatures-verified',
              'implies(result is not None and isinstance(%s.response, "saml2_tophat.samlp:Response"), '
              'forall(lambda k: implies(truthy(%s.assertions[k].signature) and %s.do_not_verify is False and truthy(%s.assertions[k].id), '
              'SIG_OK(%s.sec, %s.xmlstr, %s.assertions[k], cname(%s.assertions[k]), None)), 0, len(%s.assertions)))'
              % (_R, _R, _R, _R, _R, _R, _R, _R, _R)),
             # the forced requirements are restored to the configured values
             ('C02-flags-restored', 'implies(result is not None, truthy(%s.require_response_signature) == Wr and '
                                    'truthy(%s.require_signature) == Wa)' % (_R, _R))],
         raises={'Exception': 'True'},
         modifies=['dict(kwargs)', 'lists', 'dicts', '*.assertion', '*.encrypted_assertion', '*.subject_confirmation',
                   '*.assertions', '*.ava', '*.came_from', '*.name_id', '*.not_on_or_after', '*.session_not_on_or_after',
                   '*.xmlstr', '*.origxml', '*.response', '*.in_response_to', '*.require_signature',
                   '*.require_response_signature'],
         loops={0: {'inv': []}},
         clauses_from={'C02': ['C02-response-signature-required', 'C02-assertion-signatures-required', 'C02-either-or',
                               'C02-present-response-signature-verified', 'C02-present-assertion-signatures-verified',
                               'C02-flags-restored']})


# ================================================================================================ C10: Entity._parse_request
ghost('cfg_attr', ['Val', 'Val', 'Val'], 'Val')         # Config.getattr(attr, context): the configured option value
ghost('unravelled', ['Val', 'Val', 'Val'], 'Val')       # Entity.unravel(txt, binding, msgtype): the transport-decoded text
contract('saml2_tophat.config:Config.getattr', pure=True, trusted=True, params=['self', 'attr', 'context'], defaults={'context': None},
         returns='Any', ensures=['result == cfg_attr(self, attr, context)'],
         note='ASSUMED: attribute lookup by computed name (reflection)')
contract('saml2_tophat.request:Request.__init__', inline=True)
contract('saml2_tophat.request:Request.loads', inline=True)
_req_variants = {}
for _cls in ['AuthnRequest', 'LogoutRequest', 'AttributeQuery', 'AuthnQuery', 'AuthzDecisionQuery', 'NameIDMappingRequest',
             'ManageNameIDRequest', 'AssertionIDRequest']:
    _cq = 'saml2_tophat.request:' + _cls
    contract(_cq + '.__init__', inline=True)
    _vq = ENT + '._parse_request[%s]' % _cls
    _req_variants[('request_cls', _cq)] = _vq
    _RQ = 'as_type(result, "Inst(\'%s\')")' % _cq
    _WANT = ("(truthy(cfg_attr(self.config, 'want_authn_requests_signed', 'idp')) or "
             "truthy(cfg_attr(self.config, 'want_authn_requests_only_with_valid_cert', 'idp')))")
    contract(_vq, variant_of=ENT + '._parse_request',
             types={'enc_request': 'Any', 'request_cls': "Cls('%s')" % _cq, 'service': 'Str', 'binding': 'Opt(Str)'},
             returns="Opt(Inst('%s'))" % _cq, merge_exits='raises',
             # the two options are configuration booleans (or unset)
             requires=["class_is(request_cls, %r)" % _cq, "EP_TABLE_OK(self.config, self.entity_type, service)",
                       "EP_TABLE_OK(self.config, 'aa', service)", "EP_TABLE_OK(self.config, 'aq', service)", "EP_TABLE_OK(self.config, 'pdp', service)",
                       "typed(cfg_attr(self.config, 'want_authn_requests_signed', 'idp'), 'Opt(Bool)')",
                       "typed(cfg_attr(self.config, 'want_authn_requests_only_with_valid_cert', 'idp'), 'Opt(Bool)')"],
             ensures=[
                 # C10: what is handed to the application parsed as the expected type and passed schema validation ...
                 ('C10-parsed-and-valid', 'implies(result is not None, %s.message is not None and schema_valid(%s.message))' % (_RQ, _RQ)),
                 # ... is signed when the receiver wants signed requests, whatever the binding ...
                 ('C10-unsigned-refused-when-signatures-wanted',
                  'implies(result is not None and %s, truthy(%s.message.signature))' % (_WANT, _RQ)),
                 # ... a signature that is present verified under the issuer's key over the request element itself ...
                 ('C10-present-signature-verified',
                  'implies(result is not None and truthy(%s.message.signature) and truthy(%s.message.id), '
                  'SIG_OK(self.sec, %s.xmlstr, %s.message, cname(%s.message), None))' % (_RQ, _RQ, _RQ, _RQ, _RQ)),
                 # ... Destination absent or one of the receiver's endpoints (when it has any: known finding otherwise), fresh IssueInstant
                 ('C10-destination-when-endpoints',
                  'implies(result is not None and truthy(%s.receiver_addrs), not truthy(%s.message.destination) or '
                  '%s.message.destination in %s.receiver_addrs)' % (_RQ, _RQ, _RQ, _RQ)),
                 ('C10-issue-instant',
                  'implies(result is not None, epoch(%s.message.issue_instant) - NOW <= 86400 + %s.timeslack and '
                  'NOW - epoch(%s.message.issue_instant) <= 86400 + %s.timeslack)' % (_RQ, _RQ, _RQ, _RQ)),
                 ('C06-version', "implies(result is not None, %s.message.version == '2.0')" % _RQ)],
             raises={'Exception': 'True'},
             modifies=['*.xmlstr', '*.message', '*.sec', '*.receiver_addrs', '*.timeslack', '*.name_id', '*.not_on_or_after',
                       '*.attribute_converters', '*.binding', '*.relay_state', '*.signature_check'],
             loops={0: {'inv': [], 'modifies': []}},
             clauses_from={'C10': ['C10-parsed-and-valid', 'C10-unsigned-refused-when-signatures-wanted', 'C10-present-signature-verified',
                                   'C10-destination-when-endpoints', 'C10-issue-instant'], 'C06': ['C06-version']})
contract(ENT + '._parse_request', trusted=True, variants=_req_variants, note='dispatch stub for the constant request-class variants')


# ================================================================================================ Config.endpoint (C10 / C05: "own endpoints")
ghost('cfg_endpoints', ['Val', 'Val'], 'Val')


# ================================================================================================ C15: Entity.apply_binding, HTTP-Redirect
contract('saml2_tophat.httpbase:HTTPBase.use_http_get', inline=True)
_REDIR = 'urn:oasis:names:tc:SAML:2.0:bindings:HTTP-Redirect'
_ab_variants = {}
for _resp, _typ in [(False, 'SAMLRequest'), (True, 'SAMLResponse')]:
    _DEFL = 'b64(substr(zcompress(utf8(str_of(msg_str))), 2, len(zcompress(utf8(str_of(msg_str)))) - 6))'
    _q1 = "urlenc1('%s', %s)" % (_typ, _DEFL)
    _rs = "str_of(ite(truthy(relay_state), vstr(concat('&', urlenc1('RelayState', utf8(str_of(relay_state))))), vstr('')))"
    _signed = "concat(%s, %s, concat('&', urlenc1('SigAlg', utf8(str_of(kwargs['sigalg'])))))" % (_q1, _rs)
    _KEY = "as_type(self.sec.sec_backend, \"Inst('saml2_tophat.sigver:RSACrypto')\").key"
    _sigv = "b64(bytes_of(rsa_sign(%s, vbytes(utf8(%s)), global_object('saml2_tophat.sigver:SIGNER_ALGS')[kwargs['sigalg']].digest)))" % (_KEY, _signed)
    _vq = ENT + '.apply_binding[redirect,%s]' % _typ
    contract(_vq, variant_of=ENT + '.apply_binding', consts={'binding': _REDIR, 'response': _resp},
             types={'msg_str': 'Str', 'destination': 'Str', 'relay_state': 'Opt(Str)', 'sign': 'Any', 'kwargs': 'Dict(Str, Any)'},
             returns='Dict(Str, Any)',
             requires=["has_key(kwargs, 'sigalg')", "forall(lambda k: implies(has_key(kwargs, k), k == 'sigalg'), 'Val')",
                       "typed(kwargs['sigalg'], 'Opt(Str)')"],
             hints={('keys', 'kwargs'): ['sigalg']},
             lets={'GLUE': "ite(has_query(destination), '&', '?')"},
             ensures=[# C15: a signed redirect carries a signature made with THIS entity's own key over exactly the query it sends
                      ('C15-signed-with-the-entity-s-own-key',
                       "implies(truthy(sign) and truthy(kwargs['sigalg']) and kwargs['sigalg'] in global_object('saml2_tophat.sigver:SIGNER_ALGS'), "
                       "str_of(result['headers'][0][1]) == concat(str_of(destination), GLUE, %s, concat('&', urlenc1('Signature', %s))))"
                       % (_signed, _sigv)),
                      ('C15-unsigned-when-not-asked',
                       "implies(not (truthy(sign) and truthy(kwargs['sigalg'])), str_of(result['headers'][0][1]) == "
                       "concat(str_of(destination), GLUE, %s, %s))" % (_q1, _rs))],
             raises={'Exception': 'True'}, modifies=[],
             clauses_from={'C15': ['C15-signed-with-the-entity-s-own-key', 'C15-unsigned-when-not-asked']})
    _ab_variants[(('binding', _REDIR), ('response', _resp))] = _vq

# ---- C14: Entity.apply_binding, HTTP-POST: the message and the RelayState travel as single escaped field values of the form
_POSTB = 'urn:oasis:names:tc:SAML:2.0:bindings:HTTP-POST'
for _resp, _typ in [(False, 'SAMLRequest'), (True, 'SAMLResponse')]:
    _vq = ENT + '.apply_binding[post,%s]' % _typ
    _M64 = 'unutf8(b64(utf8(str_of(msg_str))))'
    contract(_vq, variant_of=ENT + '.apply_binding', consts={'binding': _POSTB, 'response': _resp},
             types={'msg_str': 'Str', 'destination': 'Str', 'relay_state': 'Opt(Str)', 'sign': 'Any', 'kwargs': 'Dict(Str, Any)'},
             returns='Dict(Str, Any)', lets={'Q': "'\\x22'"},
             ensures=[('C14-message-is-one-escaped-value',
                       "contains(str_of(result['data']), concat('value=' + Q, html_escape(%s), Q))" % _M64),
                      ('C14-relay-state-is-one-escaped-value',
                       "implies(truthy(relay_state), contains(str_of(result['data']), "
                       "concat('name=' + Q + 'RelayState' + Q + ' value=' + Q, html_escape(str_of(relay_state)), Q)))"),
                      ('posted-to-the-destination', "result['url'] == destination and result['method'] == 'POST'")],
             raises={'Exception': 'True'}, modifies=[],
             clauses_from={'C14': ['C14-message-is-one-escaped-value', 'C14-relay-state-is-one-escaped-value']})
    _ab_variants[(('binding', _POSTB), ('response', _resp))] = _vq


# ================================================================================================ the SP's public entry point (C02, C05)
BASE = 'saml2_tophat.client_base:Base'
declare_class(BASE, fields={'allow_unsolicited': 'Any', 'want_assertions_signed': 'Opt(Bool)', 'want_assertions_or_response_signed': 'Opt(Bool)',
                            'want_response_signed': 'Opt(Bool)', 'valid_destination_regex': 'Opt(Str)', 'users': "Inst('saml2_tophat.population:Population')"})
declare_class('saml2_tophat.population:Population', fields={})
contract(BASE + '.service_urls', types={'binding': 'Opt(Str)'}, returns='Opt(List(Str))', pure=True,
         requires=["EP_TABLE_OK(self.config, 'sp', 'assertion_consumer_service')"],
         ensures=[# C05: the return addresses are this SP's own assertion-consumer endpoints for that binding
                  ('C05-own-endpoints', "implies(result is not None, forall(lambda v: implies(contains(seq(result), v), "
                                        "cfg_attr(self.config, 'endpoints', 'sp') is not None and "
                                        "has_key(as_type(cfg_attr(self.config, 'endpoints', 'sp'), 'Dict(Str, List(Tuple(Str, Str)))'), 'assertion_consumer_service') and "
                                        "exists(lambda j: as_type(cfg_attr(self.config, 'endpoints', 'sp'), 'Dict(Str, List(Tuple(Str, Str)))')['assertion_consumer_service'][j][0] == v and "
                                        "(binding is None or as_type(cfg_attr(self.config, 'endpoints', 'sp'), 'Dict(Str, List(Tuple(Str, Str)))')['assertion_consumer_service'][j][1] == binding), 0, "
                                        "len(as_type(cfg_attr(self.config, 'endpoints', 'sp'), 'Dict(Str, List(Tuple(Str, Str)))')['assertion_consumer_service']))), 'Val'))")],
         modifies=[], clauses_from={'C05': ['C05-own-endpoints']})
contract('saml2_tophat.population:Population.add_information_about_person', trusted=True, pure=True, params=['self', 'session_info'],
         returns='Any', raises={'Exception': 'True'}, note='ASSUMED: stores a copy of the session information (C19); does not touch the response')
contract(ARQ + '.session_info', trusted=True, pure=True, params=['self'], returns='Dict(Str, Any)', raises={'Exception': 'True'},
         note='ASSUMED: reads the response object')
_RR = 'as_type(result, "Inst(\'%s\')")' % ARQ
contract(BASE + '.parse_authn_request_response',
         types={'xmlstr': 'Any', 'binding': 'Opt(Str)', 'outstanding': 'Any', 'outstanding_certs': 'Any', 'conv_info': 'Any'},
         returns="Opt(Inst('%s'))" % ARQ, merge_exits='raises',
         requires=["EP_TABLE_OK(self.config, 'sp', 'assertion_consumer_service')", "EP_TABLE_OK(self.config, self.entity_type, 'assertion_consumer_service')",
                   'self.config.entityid is None or is_str(self.config.entityid)',
                   "conv_info is None or typed(conv_info, 'Dict(Str, Any)')", "outstanding is None or typed(outstanding, 'Dict(Str, Any)')",
                   'outstanding_certs is None'],
         ensures=[
             # C02, at the point where the application observes it, in terms of the three documented options
             ('C02-want-response-signed', 'implies(result is not None and truthy(self.want_response_signed), truthy(%s.response.signature))' % _RR),
             ('C02-want-assertions-signed',
              'implies(result is not None and truthy(self.want_assertions_signed) and isinstance(%s.response, "saml2_tophat.samlp:Response"), '
              'forall(lambda k: truthy(%s.assertions[k].signature), 0, len(%s.assertions)))' % (_RR, _RR, _RR)),
             ('C02-want-either',
              'implies(result is not None and truthy(self.want_assertions_or_response_signed) and isinstance(%s.response, "saml2_tophat.samlp:Response"), '
              'truthy(%s.response.signature) or forall(lambda k: truthy(%s.assertions[k].signature), 0, len(%s.assertions)))' % (_RR, _RR, _RR, _RR)),
             ('C02-present-response-signature-verified',
              'implies(result is not None and truthy(%s.response.signature) and not truthy(%s.do_not_verify) and truthy(%s.response.id), '
              'SIG_OK(%s.sec, %s.origxml, %s.response, cname(%s.response), None))' % (_RR, _RR, _RR, _RR, _RR, _RR, _RR))],
         raises={'Exception': 'True'},
         modifies=['dicts', 'lists', '*.assertion', '*.encrypted_assertion', '*.subject_confirmation', '*.assertions', '*.ava', '*.came_from',
                   '*.name_id', '*.not_on_or_after', '*.session_not_on_or_after', '*.xmlstr', '*.origxml', '*.response', '*.in_response_to',
                   '*.require_signature', '*.require_response_signature'],
         clauses_from={'C02': ['C02-want-response-signed', 'C02-want-assertions-signed', 'C02-want-either',
                               'C02-present-response-signature-verified']})
contract(ENT + '._parse_response', trusted=True, variants={('service', 'assertion_consumer_service'): ENT + '._parse_response[AuthnResponse]'},
         note='dispatch stub: the only call with service=assertion_consumer_service passes response_cls=AuthnResponse')


# ================================================================================================ the IdP's public entry points (C10)
for _fn, _cls, _svc in [('saml2_tophat.server:Server.parse_authn_request', 'AuthnRequest', 'single_sign_on_service'),
                        (ENT + '.parse_logout_request', 'LogoutRequest', 'single_logout_service')]:
    _cq = 'saml2_tophat.request:' + _cls
    _RQ = 'as_type(result, "Inst(\'%s\')")' % _cq
    contract(_fn, types={'enc_request': 'Any', 'xmlstr': 'Any', 'binding': 'Opt(Str)'}, returns="Opt(Inst('%s'))" % _cq, merge_exits='raises',
             requires=["EP_TABLE_OK(self.config, self.entity_type, %r)" % _svc, "EP_TABLE_OK(self.config, 'aa', %r)" % _svc,
                       "EP_TABLE_OK(self.config, 'aq', %r)" % _svc, "EP_TABLE_OK(self.config, 'pdp', %r)" % _svc,
                       "typed(cfg_attr(self.config, 'want_authn_requests_signed', 'idp'), 'Opt(Bool)')",
                       "typed(cfg_attr(self.config, 'want_authn_requests_only_with_valid_cert', 'idp'), 'Opt(Bool)')"],
             ensures=[('C10-parsed-and-valid', 'implies(result is not None, %s.message is not None and schema_valid(%s.message))' % (_RQ, _RQ)),
                      ('C10-unsigned-refused-when-signatures-wanted',
                       "implies(result is not None and (truthy(cfg_attr(self.config, 'want_authn_requests_signed', 'idp')) or "
                       "truthy(cfg_attr(self.config, 'want_authn_requests_only_with_valid_cert', 'idp'))), truthy(%s.message.signature))" % _RQ),
                      ('C10-present-signature-verified',
                       'implies(result is not None and truthy(%s.message.signature) and truthy(%s.message.id), '
                       'SIG_OK(self.sec, %s.xmlstr, %s.message, cname(%s.message), None))' % (_RQ, _RQ, _RQ, _RQ, _RQ)),
                      ('C10-issue-instant', 'implies(result is not None, epoch(%s.message.issue_instant) - NOW <= 86400 + %s.timeslack and '
                                            'NOW - epoch(%s.message.issue_instant) <= 86400 + %s.timeslack)' % (_RQ, _RQ, _RQ, _RQ)),
                      ('C06-version', "implies(result is not None, %s.message.version == '2.0')" % _RQ)],
             raises={'Exception': 'True'},
             modifies=['*.xmlstr', '*.message', '*.sec', '*.receiver_addrs', '*.timeslack', '*.name_id', '*.not_on_or_after',
                       '*.attribute_converters', '*.binding', '*.relay_state', '*.signature_check'],
             clauses_from={'C10': ['C10-parsed-and-valid', 'C10-unsigned-refused-when-signatures-wanted', 'C10-present-signature-verified',
                                   'C10-issue-instant'], 'C06': ['C06-version']})


# ================================================================================================ C17 (IdP side): Entity._encrypt_assertion
ghost('md_enc_certs', ['Val', 'Val'], 'Seq')    # encryption certificates the metadata store holds for an entity id (C16)
contract('saml2_tophat.sigver:SecurityContext.encrypt_assertion', inline=True)
contract('saml2_tophat.sigver:pre_encryption_part', trusted=True, pure=True, params=['msg_enc', 'key_enc', 'key_name'],
         defaults={'msg_enc': None, 'key_enc': None, 'key_name': None}, returns='Any', note='template element (builder code)')
# (MetaData.certs: abstract contract in c_sigver.py, with the encryption clause)
_RESP_T = "Union(Str, Inst('saml2_tophat:SamlBase'))"
contract(ENT + '._encrypt_assertion',
         types={'encrypt_cert': 'Opt(Str)', 'sp_entity_id': 'Opt(Str)', 'response': _RESP_T, 'node_xpath': 'Opt(Str)'}, returns=_RESP_T,
         ensures=[# C17: when the SP has an encryption certificate (given, or in metadata), what is handed back is the (non-empty)
                  # output of the encryption tool -- never the text / object that was passed in
                  ('C17-never-the-clear-response-when-a-certificate-exists',
                   'implies(truthy(encrypt_cert) or (sp_entity_id is not None and len(md_enc_certs(self.metadata, sp_entity_id)) > 0), '
                   'is_str(result) and exists(lambda o: is_bytes(o) and len(bytes_of(o)) > 0 and str_of(result) == unutf8(bytes_of(o)), "Val"))'),
                  ('no-certificate-no-change', 'implies(not truthy(encrypt_cert) and (sp_entity_id is None or len(md_enc_certs(self.metadata, sp_entity_id)) == 0), '
                                               'result == response)')],
         raises={'Exception': 'True'}, modifies=[],
         local_types={'_certs': 'List(Str)', 'exception': "Opt(Inst('builtins:BaseException'))"},
         lets={'R0': 'response'},
         loops={0: {'inv': ['implies(i0 == 0, exception is None)', 'implies(i0 > 0, exception is not None)', 'response == R0'], 'modifies': []}},
         clauses_from={'C17': ['C17-never-the-clear-response-when-a-certificate-exists']})
