"""C12 known finding: a saml.AttributeValue that carries a foreign attribute next to its typed text does not
re-serialise to identical text after one round trip (the xsi:type / xmlns:xs pseudo-attributes that set_text()
maintains in extension_attributes change position relative to the foreign attribute).  The two texts are the same
XML infoset; from the second serialisation on the text is stable."""
import os, sys
sys.path.insert(0, os.path.dirname(__file__))
from _util import done
import saml2_tophat
from saml2_tophat import saml

a = saml.AttributeValue(text='plain')
a.extension_attributes['{urn:pyvc:foreign}attr'] = 'fa'
s1 = a.to_string()
s2 = saml2_tophat.create_class_from_xml_string(saml.AttributeValue, s1).to_string()
done(s1 != s2, 'first and second serialisation differ in attribute order')
