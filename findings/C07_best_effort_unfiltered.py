"""C07 known finding: Server.setup_assertion with best_effort=True (always the case from _authn_response) catches the
MissingValue raised while the release policy is applied and goes on to build the assertion from the Assertion object,
which apply_policy() has not touched yet -- the unfiltered identity is asserted."""
import os, sys
sys.path.insert(0, os.path.dirname(__file__))
from _util import done
from saml2_tophat import server, assertion
from saml2_tophat.s_utils import MissingValue


class Conf(object):
    attribute_converters = []

    def getattr(self, name, ctx=None):
        return []


class MD(object):
    def attribute_requirement(self, sp, index=None):
        # the SP requires an attribute the identity does not have
        return {'required': [{'name': 'urn:oid:0.9.2342.19200300.100.1.3', 'friendly_name': 'mail', 'name_format': None}],
                'optional': []}

    def entity_categories(self, sp):
        return []


released = {}
orig = assertion.Assertion.construct
assertion.Assertion.construct = lambda self, *a, **kw: released.update(self) or 'ASSERTION'
srv = object.__new__(server.Server)
srv.config = Conf()
srv.metadata = MD()
policy = assertion.Policy({'default': {'attribute_restrictions': {'givenname': None}}})     # only givenName may be released
identity = {'givenName': ['Ann'], 'surName': ['Smith'], 'eduPersonEntitlement': ['staff']}
try:
    res = srv.setup_assertion(None, 'https://sp.example.org', 'id1', 'https://sp.example.org/acs', None, policy, 'issuer', None,
                              identity, True, False)
finally:
    assertion.Assertion.construct = orig
leaked = sorted(k for k in released if k.lower() != 'givenname')
done(res == 'ASSERTION' and bool(leaked), 'policy allows only givenName, SP requires the absent mail; asserted attributes: %s'
     % sorted(released))
