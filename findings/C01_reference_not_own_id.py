"""C01 known finding (atom A4): SecurityContext._check_signature never compares the ds:Reference URI of the element's
Signature with the element's own ID.  With a backend that reports OK for (document, node name, node id) -- which is
all xmlsec1 --node-id establishes: *some* signature under that node verifies over whatever it references -- an
element whose Signature references a different ID is accepted."""
import os, sys
sys.path.insert(0, os.path.dirname(__file__))
from _util import done
from saml2_tophat import sigver, saml, samlp
from saml2_tophat import xmldsig as ds


class MD(object):
    def __len__(self):
        return 1

    def certs(self, entity_id, descriptor, use='signing'):
        return ['MIIB']


class CH(object):
    def verify_cert(self, f):
        return True


calls = []
sc = object.__new__(sigver.SecurityContext)
sc.metadata = MD()
sc.only_use_keys_in_metadata = True
sc._xmlsec_delete_tmpfiles = True
sc.cert_handler = CH()
sc.id_attr = 'ID'
sc.cert_file = None
sc.cert_type = 'pem'
sc.verify_signature = lambda *a, **kw: calls.append(kw) or True     # the tool says OK for node_id=item.id

sig = ds.Signature(signed_info=ds.SignedInfo(reference=[ds.Reference(uri='#some-other-element')]),
                   signature_value=ds.SignatureValue(text='AAAA'))
item = saml.Assertion(id='forged-assertion', issuer=saml.Issuer(text='https://idp.example.org'), signature=sig)
try:
    res = sc._check_signature('<doc/>', item, 'urn:oasis:names:tc:SAML:2.0:assertion:Assertion')
except Exception as e:
    done(False, 'refused: %r' % (e,))
done(res is item and calls and calls[0].get('node_id') == 'forged-assertion',
     'element ID=forged-assertion accepted although its Signature references #some-other-element')
