"""C10 known finding: Request._verify accepts a foreign Destination when the receiver has no endpoint configured
for the service/binding the request arrived on (receiver_addrs empty)."""
import os, sys
sys.path.insert(0, os.path.dirname(__file__))
from _util import done
from saml2_tophat import request, samlp, time_util

r = object.__new__(request.AuthnRequest)
r.receiver_addrs = []           # what config.endpoint(service, binding) returns when nothing is configured
r.timeslack = 0
r.message = samlp.AuthnRequest(id='id1', version='2.0', issue_instant=time_util.instant(),
                               destination='https://somebody.else.example.org/sso')
try:
    ok = r._verify() is r
except Exception as e:
    done(False, 'refused: %r' % (e,))
done(ok, 'request with Destination=https://somebody.else.example.org/sso accepted by a receiver with no endpoint')
