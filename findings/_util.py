"""helpers for the stored witnesses of known findings: each witness exits 0 iff the defect still reproduces on the
repository given by PYVC_REPO (default /repo)"""
import os, sys, warnings
warnings.simplefilter('ignore')
REPO = os.environ.get('PYVC_REPO', '/repo')
sys.path.insert(0, os.path.join(REPO, 'src'))


def done(reproduced, msg):
    print(('REPRODUCED: ' if reproduced else 'NOT REPRODUCED: ') + msg)
    sys.exit(0 if reproduced else 1)
