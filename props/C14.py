PROP = {
 "functions": [
  "saml2_tophat.s_utils:deflate_and_base64_encode",
  "saml2_tophat.s_utils:decode_base64_and_inflate",
  "saml2_tophat.pack:http_form_post_message",
  "saml2_tophat.pack:http_redirect_message[SAMLRequest]",
  "saml2_tophat.pack:http_redirect_message[SAMLResponse]",
  "saml2_tophat.entity:Entity.unravel[response]",
  "saml2_tophat.entity:Entity.unravel[request]",
  "saml2_tophat.entity:Entity.apply_binding[post,SAMLRequest]",
  "saml2_tophat.entity:Entity.apply_binding[post,SAMLResponse]",
  "saml2_tophat.entity:Entity.apply_binding[redirect,SAMLRequest]",
  "saml2_tophat.entity:Entity.apply_binding[redirect,SAMLResponse]",
  "saml2_tophat.pack:http_post_message[SAMLRequest]",
  "saml2_tophat.pack:http_post_message[SAMLResponse]"
 ],
 "lemmas": [
  [
   "redirect-decode-inverts-encode",
   "forall(lambda s: inflate(unb64(b64(substr(zcompress(utf8(s)), 2, len(zcompress(utf8(s))) - 6)))) == utf8(s), 'Str')"
  ],
  [
   "post-decode-inverts-encode",
   "forall(lambda s: unb64(b64(utf8(s))) == utf8(s), 'Str')"
  ]
 ],
 "bounded": [
  "soap_roundtrip",
  "form_post"
 ],
 "level": "other",
 "explanation": "Deductive part: the HTTP-Redirect encoder (Location = destination + glue + one urlencoded k=v pair per parameter, message = base64 of the raw-deflate stream), the redirect decoder, the lemma decode(encode(s)) == utf8(s) over the E-ZLIB / E-B64 axioms, and the HTTP-POST form (message and RelayState each appear as one value=\"html-escaped\" attribute). Entity.apply_binding (HTTP-POST and HTTP-Redirect, request and response) carries the encoder clauses to the entry point the anchors name, Entity.unravel applies for each binding the decoder that inverts that binding's encoder (Redirect: inflate of base64; POST / Artifact: base64; URI / none: identity; anything else is refused), and http_post_message (the form-less POST body) is one urlencoded pair per parameter; with the two lemmas decode(encode(s)) == utf8(s) this is the byte-identical round trip for Redirect and POST. The SOAP packer is string surgery over ElementTree output, outside the subset: BOUNDED native round trip, labelled bounded. http_post_message / artifact / PAOS are not instantiated.",
 "assumptions": [
  "E-URL",
  "E-HTML",
  "E-ZLIB",
  "E-B64"
 ],
 "not_decided": [
  "parse_qs inverts urlencode (E-URL, assumed)",
  "a conforming HTML tokenizer recovers exactly the escaped value (E-HTML, assumed)",
  "use_http_artifact, use_http_uri, PAOS; Entity.unravel for SOAP (the reader is covered by C11 / soap_roundtrip)"
 ],
 "id": "C14"
}
