PROP = {
 "functions": [
  "saml2_tophat.s_utils:deflate_and_base64_encode",
  "saml2_tophat.s_utils:decode_base64_and_inflate",
  "saml2_tophat.pack:http_form_post_message",
  "saml2_tophat.pack:http_redirect_message[SAMLRequest]",
  "saml2_tophat.pack:http_redirect_message[SAMLResponse]"
 ],
 "lemmas": [
  [
   "redirect-decode-inverts-encode",
   "forall(lambda s: inflate(unb64(b64(substr(zcompress(utf8(s)), 2, len(zcompress(utf8(s))) - 6)))) == utf8(s), 'Str')"
  ]
 ],
 "bounded": [
  "soap_roundtrip",
  "form_post"
 ],
 "level": "other",
 "explanation": "Deductive part: the HTTP-Redirect encoder (Location = destination + glue + one urlencoded k=v pair per parameter, message = base64 of the raw-deflate stream), the redirect decoder, the lemma decode(encode(s)) == utf8(s) over the E-ZLIB / E-B64 axioms, and the HTTP-POST form (message and RelayState each appear as one value=\"html-escaped\" attribute). The SOAP packer is string surgery over ElementTree output, outside the subset: BOUNDED native round trip, labelled bounded. http_post_message / artifact / PAOS are not instantiated.",
 "assumptions": [
  "E-URL",
  "E-HTML",
  "E-ZLIB",
  "E-B64"
 ],
 "not_decided": [
  "parse_qs inverts urlencode (E-URL, assumed)",
  "a conforming HTML tokenizer recovers exactly the escaped value (E-HTML, assumed)",
  "http_post_message, use_http_artifact, PAOS"
 ],
 "id": "C14"
}
