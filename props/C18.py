PROP = {
 "id": "C18",
 "functions": [
  "saml2_tophat.ident:code",
  "saml2_tophat.ident:IdentDB.store",
  "saml2_tophat.ident:IdentDB.remove_local",
  "saml2_tophat.ident:IdentDB.find_local_id",
  "saml2_tophat.ident:IdentDB.remove_remote",
  "saml2_tophat.ident:IdentDB.handle_manage_name_id_request",
  "saml2_tophat.ident:IdentDB.create_id",
  "saml2_tophat.ident:IdentDB.get_nameid"
 ],
 "bounded": [
  "ident_history"
 ],
 "level": "other",
 "explanation": "Deductive part: ident.code produces exactly the documented encoding (for each field with a value \"<index>=<quote(value)>\" joined by \",\"; quote is E-URL); IdentDB.store adds the reverse entry text -> user and appends the code to the user's list without touching any other key; IdentDB.remove_local terminates without NameError (fixed), forgets the user and only removes keys; find_local_id is the reverse lookup. decode, the split/join based lookups (find_nameid, match_local_id, remove_remote), persistent / transient wrappers around get_nameid and the mapping / manage-name-id handlers are NOT verified deductively: BOUNDED native grid for decode(code(n)) == n and collision freedom, and exhaustive operation histories against a reference map, labelled bounded. Issuing is under contract: create_id returns a text that is not a key of the database (the retry loop's invariant; termination not verified), get_nameid issues a fresh identifier with the requested qualifiers that resolves to exactly its user and touches nobody else's entries (E-RAND: local user names are not outputs of the generator).",
 "assumptions": [
  "E-URL",
  "E-RAND",
  "E-SHELVE",
  "A-STR"
 ],
 "not_decided": [
  "decode o code == id and injectivity of code as a lemma (string decode clauses stay undecided in z3 and cvc5)",
  "the representation invariant of IdentDB across remove_remote / match_local_id / handle_* (split/join over symbolic lists)",
  "observation: after the last identifier of a user is withdrawn the user keeps an empty list entry"
 ]
}
