PROP = {
 "functions": [
  "saml2_tophat.entity:Entity._parse_response[AuthnResponse]",
  "saml2_tophat.response:AuthnResponse.loads",
  "saml2_tophat.response:StatusResponse._loads",
  "saml2_tophat.response:StatusResponse._postamble",
  "saml2_tophat.response:AuthnResponse.verify",
  "saml2_tophat.response:AuthnResponse._assertion",
  "saml2_tophat.sigver:SecurityContext.correctly_signed_response",
  "saml2_tophat.sigver:SecurityContext._check_signature",
  "saml2_tophat.client_base:Base.parse_authn_request_response"
 ],
 "bounded": [
  "sig_table"
 ],
 "level": "other",
 "explanation": "The 'only if' half of C02 is a set of postconditions on the real Entity._parse_response (specialised to response_cls=AuthnResponse, service=assertion_consumer_service, the only way Saml2Client.parse_authn_request_response reaches it), proved for all inputs and all 8 option settings at once, over the verified contracts of loads/_loads/correctly_signed_response/verify/_assertion: a returned response has a response signature when want_response_signed, has every kept assertion signed when want_assertions_signed, has one or the other when want_assertions_or_response_signed, every signature that is present was verified (SIG_OK) whether required or not, and the temporarily forced requirements are restored. The retry logic (force-require, catch, retry) is executed symbolically with merged exceptional outcomes. AuthnResponse.parse_assertion is an ASSUMED contract (every kept assertion went through _assertion). The 'if' half (no spurious rejection of a response that meets the requirements) is not stated: every callee may raise for reasons outside this property (validity, audience, tool failure).",
 "not_decided": [
  "the 'if' direction: an otherwise valid response meeting every enabled requirement is accepted",
  "AuthnResponse.parse_assertion body (assumed contract: two decrypt loops over re-parsed documents)",
  "other response classes passed to _parse_response (LogoutResponse etc. go through the same code with response_cls another class)"
 ],
 "id": "C02"
}
