PROP = {
 "id": "C09",
 "functions": [
  "saml2_tophat.entity:Entity.pick_binding[assertion_consumer_service]",
  "saml2_tophat.entity:Entity.response_args[AuthnRequest]",
  "saml2_tophat.mdstore:destinations",
  "saml2_tophat.entity:Entity.pick_binding[single_logout_service]",
  "saml2_tophat.entity:Entity.pick_binding[manage_name_id_service]",
  "saml2_tophat.entity:Entity.pick_binding[attribute_consuming_service]",
  "saml2_tophat.entity:Entity.response_args[LogoutRequest]",
  "saml2_tophat.entity:Entity.response_args[ManageNameIDRequest]",
  "saml2_tophat.entity:Entity.response_args[AttributeQuery]"
 ],
 "bounded": [
  "endpoint_choice"
 ],
 "level": "proof",
 "level_text": "pick_binding (service = assertion_consumer_service) and response_args (AuthnRequest) are verified against the statement: the destination is one of the endpoints the metadata store returns for the requester, a supplied URL is honoured only when equal to a registered one, no destination for an unknown requester (the store's errors propagate). The metadata lookups themselves are assumed here by contract (C16).",
 "not_decided": [
  "request classes other than AuthnRequest, LogoutRequest, ManageNameIDRequest and AttributeQuery (pick_binding and response_args are instantiated as constant-service / constant-class variants for those four; AuthnQuery, AuthzDecisionQuery, NameIDMappingRequest, AssertionIDRequest go through the same code with another service constant and are not instantiated)",
  "index-based selection: dead for AuthnRequest because the _url attribute always exists (observation)"
 ]
}
