PROP = {
 "functions": [
  "saml2_tophat.request:Request._loads[AuthnRequest]",
  "saml2_tophat.request:Request._loads[LogoutRequest]",
  "saml2_tophat.request:Request._loads[AttributeQuery]",
  "saml2_tophat.request:Request._loads[AuthnQuery]",
  "saml2_tophat.request:Request._loads[AuthzDecisionQuery]",
  "saml2_tophat.request:Request._loads[NameIDMappingRequest]",
  "saml2_tophat.request:Request._loads[ManageNameIDRequest]",
  "saml2_tophat.request:Request._loads[AssertionIDRequest]",
  "saml2_tophat.request:Request.issue_instant_ok",
  "saml2_tophat.request:Request._verify",
  "saml2_tophat.request:Request.verify",
  "saml2_tophat.sigver:SecurityContext._check_signature",
  "saml2_tophat.sigver:SecurityContext.correctly_signed_message[authn_request]",
  "saml2_tophat.sigver:SecurityContext.correctly_signed_message[logout_request]",
  "saml2_tophat.sigver:SecurityContext.correctly_signed_message[attribute_query]",
  "saml2_tophat.sigver:SecurityContext.correctly_signed_message[authn_query]",
  "saml2_tophat.sigver:SecurityContext.correctly_signed_message[authz_decision_query]",
  "saml2_tophat.sigver:SecurityContext.correctly_signed_message[name_id_mapping_request]",
  "saml2_tophat.sigver:SecurityContext.correctly_signed_message[manage_name_id_request]",
  "saml2_tophat.sigver:SecurityContext.correctly_signed_message[assertion_id_request]"
 ],
 "level": "other",
 "explanation": "All obligations generated for the request-validation functions (Request._loads per request class, issue_instant_ok, _verify, verify, correctly_signed_message per message type, _check_signature) are discharged except one: the clause copied from the statement that a Destination, when present, is one of the receiver's own endpoints fails when the receiver has no endpoint configured for that service and binding (recorded known finding with a native witness).",
 "id": "C10"
}
