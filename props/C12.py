PROP = {
 "functions": [],
 "tables": [
  "table_schema_children",
  "table_schema_factories"
 ],
 "bounded": [
  "schema_roundtrip"
 ],
 "level": "other",
 "explanation": "Exhaustive finite-table obligations over all generated schema classes (child keys equal the member class tag, member names unique, c_child_order covers the children, element factories agree with tags) are decided completely. The generic (de)serialisers (table-driven getattr/setattr over ElementTree) are outside the verified Python subset; they are exercised by a BOUNDED native round trip of generated instances of every class (depth 1 quick / 2 thorough), labelled bounded and not counted as proved.",
 "assumptions": [
  "E-ET"
 ],
 "not_decided": [
  "SamlBase._to_element_tree / harvest_element_tree as deductive obligations (symbolic getattr over table-driven names, ElementTree objects)"
 ],
 "id": "C12"
}
