PROP = {
 "id": "C04",
 "functions": [
  "saml2_tophat.validate:validate_on_or_after",
  "saml2_tophat.validate:validate_before",
  "saml2_tophat.time_util:time_in_a_while",
  "saml2_tophat.time_util:time_a_while_ago",
  "saml2_tophat.time_util:shift_time",
  "saml2_tophat.time_util:later_than",
  "saml2_tophat.response:StatusResponse.issue_instant_ok",
  "saml2_tophat.response:AuthnResponse.authn_statement_ok",
  "saml2_tophat.response:AuthnResponse.condition_ok",
  "saml2_tophat.response:AuthnResponse._bearer_confirmed",
  "saml2_tophat.response:AuthnResponse._assertion",
  "saml2_tophat.response:AuthnResponse.get_subject",
  "saml2_tophat.response:StatusResponse._verify",
  "saml2_tophat.time_util:str_to_time"
 ],
 "bounded": [
  "time_parse"
 ],
 "level": "proof"
}
