PROP = {
    'id': 'C04',
    'functions': ['saml2_tophat.validate:validate_on_or_after', 'saml2_tophat.validate:validate_before'],
    'level': 'proof',
}
