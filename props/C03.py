PROP = {
 "functions": [
  "saml2_tophat.sigver:SecurityContext._check_signature",
  "saml2_tophat.sigver:SecurityContext.check_signature",
  "saml2_tophat.sigver:SecurityContext.correctly_signed_response",
  "saml2_tophat.sigver:SecurityContext.correctly_signed_message[authn_request]"
 ],
 "bounded": [
  "mdstore_lookup"
 ],
 "level": "proof",
 "id": "C03"
}
