PROP = {
 "functions": [
  "saml2_tophat.sigver:SecurityContext._check_signature",
  "saml2_tophat.sigver:SecurityContext.check_signature",
  "saml2_tophat.sigver:SecurityContext.correctly_signed_response",
  "saml2_tophat.sigver:SecurityContext.correctly_signed_message[authn_request]"
 ],
 "bounded": [
  "mdstore_lookup",
  "wrap_table"
 ],
 "level": "proof",
 "id": "C03",
 "level_text": "Every proof obligation generated from the current source of the functions under contract is discharged: a normal return of _check_signature means the signature verified under a certificate metadata holds for the issuer named in the signed element (the caller's hint only when the element names none), or -- only if metadata has none and the configuration allows it -- under a certificate embedded in the element. BOUNDED companions (never counted as proved): mdstore_lookup for the assumed MetaData.certs; wrap_table (stand-in tool): an assertion that names ANOTHER identity provider known from metadata as its issuer but is signed with the key of the provider that sent the response must be refused -- as a plain assertion, inside the ciphertext of an encrypted one, and in the PEFIM layout where the decrypted advice assertion is verified with the outer issuer as a hint."
}
