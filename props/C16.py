PROP = {
 "id": "C16",
 "functions": [
  "saml2_tophat.mdstore:MetadataStore.service",
  "saml2_tophat.mdstore:InMemoryMetaData.parse",
  "saml2_tophat.mdstore:InMemoryMetaData.signed",
  "saml2_tophat.mdstore:InMemoryMetaData.parse_and_check_signature",
  "saml2_tophat.time_util:before",
  "saml2_tophat.time_util:after",
  "saml2_tophat.mdstore:destinations"
 ],
 "bounded": [
  "mdstore_lookup",
  "md_generate"
 ],
 "level": "other",
 "explanation": "Deductive part: MetadataStore.service returns the answer of one loaded source for exactly the queried entity, role, service and binding and distinguishes UnknownSystemEntity from UnsupportedBinding exactly; InMemoryMetaData.parse raises ToOld (loads nothing) for an EntitiesDescriptor whose validUntil has passed; parse_and_check_signature reports signed metadata good only if the tool verified it under the configured certificate (E-XMLSEC, no --node-id: first signature of the document); time_util.before/after against the clock ghost. NOT verified deductively (the contracts are ASSUMED, drafted text kept under contracts/_unproved_*): InMemoryMetaData.service (four invariant obligations over nested untyped dict/list structures stay unknown), MetaData.certs, do_entity_descriptor, attribute_requirement, entity_categories, metadata generated from configuration. These are covered by a BOUNDED native comparison of every lookup with the generating specification (24 entities, 2 sources, expired / duplicate entities), labelled bounded. The last clause (metadata generated from an entity's own configuration loads back to the same endpoints and keys) has a BOUNDED native check of its own, md_generate: 252 SP and 189 IdP configurations (three endpoint spellings, several bindings, logout endpoints, signing / additional / encryption certificates, metadata_key_usage, entity categories, valid_for) go through the real metadata.entity_descriptor, are loaded pairwise into one real MetadataStore and every per-binding lookup, certs per use and entity categories are compared with the configuration.",
 "not_decided": [
  "InMemoryMetaData.service, MetaData.certs, do_entity_descriptor, attribute_requirement, entity_attributes / entity_categories as deductive obligations",
  "CryptoBackendXMLSecurity (returns False instead of raising; module absent)",
  "metadata generated from an entity configuration loads back to the same endpoints and keys: BOUNDED only (md_generate); the 800 lines of builder code in metadata.py are under no contract"
 ]
}
