PROP = {
 "id": "C13",
 "functions": [
  "saml2_tophat.request:Request._loads[AssertionIDRequest]",
  "saml2_tophat.request:Request._loads[AttributeQuery]",
  "saml2_tophat.request:Request._loads[AuthnQuery]",
  "saml2_tophat.request:Request._loads[AuthnRequest]",
  "saml2_tophat.request:Request._loads[AuthzDecisionQuery]",
  "saml2_tophat.request:Request._loads[LogoutRequest]",
  "saml2_tophat.request:Request._loads[ManageNameIDRequest]",
  "saml2_tophat.request:Request._loads[NameIDMappingRequest]",
  "saml2_tophat.response:StatusResponse._loads",
  "saml2_tophat.response:StatusResponse._postamble",
  "saml2_tophat.validate:valid_integer",
  "saml2_tophat.validate:valid_non_negative_integer",
  "saml2_tophat.validate:valid_positive_integer",
  "saml2_tophat.validate:valid_unsigned_byte",
  "saml2_tophat.validate:valid_boolean",
  "saml2_tophat.validate:valid_date_time"
 ],
 "function_generator": [
  "contracts.c_validate_classes",
  "functions_for_tier"
 ],
 "tables": [
  "table_validators"
 ],
 "bounded": [
  "schema_validation"
 ],
 "level": "other",
 "explanation": "validate.valid_instance is verified deductively once per schema class for a set of small central classes (the class a constant, so the table-driven loops are unrolled exactly; the postcondition is generated from what the class declares). Generation cost grows steeply with the number of members, so larger classes are verified in the thorough tier only and the remaining classes are covered by (a) the exhaustive validator-table obligation over all 1156 classes and (b) a BOUNDED native sweep (every class: a valid instance is accepted, each declared constraint violated in isolation is rejected), labelled bounded and not counted as proved. valid_date_time is verified against the meaning of the accepted timestamp spellings (it accepts exactly an empty value or a text time_util.str_to_time parses; str_to_time carries the post 'only parsable text is accepted').",
 "not_decided": [
  "deductive per-class proofs for the classes outside the quick / thorough lists",
  "AttributeValue (typed text, __setattr__ override) is outside the subset",
  "single-valued children with XSD minOccurs=1 have no c_cardinality entry: their presence is not a declared bound (observation, see C06 for Status)"
 ]
}
