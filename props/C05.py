PROP = {
 "functions": [
  "saml2_tophat.response:for_me",
  "saml2_tophat.response:AuthnResponse.condition_ok",
  "saml2_tophat.response:AuthnResponse._bearer_confirmed",
  "saml2_tophat.response:StatusResponse._validate_destination",
  "saml2_tophat.response:StatusResponse._verify",
  "saml2_tophat.response:AuthnResponse.check_subject_confirmation_in_response_to",
  "saml2_tophat.response:AuthnResponse.loads"
 ],
 "level": "proof",
 "id": "C05"
}
