PROP = {
 "functions": [
  "saml2_tophat.response:for_me",
  "saml2_tophat.response:AuthnResponse.condition_ok",
  "saml2_tophat.response:AuthnResponse._bearer_confirmed",
  "saml2_tophat.response:StatusResponse._validate_destination",
  "saml2_tophat.response:StatusResponse._verify",
  "saml2_tophat.response:AuthnResponse.check_subject_confirmation_in_response_to",
  "saml2_tophat.response:AuthnResponse.loads",
  "saml2_tophat.response:AuthnResponse._assertion",
  "saml2_tophat.response:AuthnResponse.get_subject",
  "saml2_tophat.response:AuthnResponse.verify_recipient",
  "saml2_tophat.config:Config.endpoint",
  "saml2_tophat.response:AuthnResponse.verify_attesting_entity",
  "saml2_tophat.client_base:Base.service_urls"
 ],
 "level": "proof",
 "id": "C05"
}
