PROP = {
    'id': 'C05',
    'functions': [
        'saml2_tophat.response:for_me',
        'saml2_tophat.response:AuthnResponse.condition_ok',
        'saml2_tophat.response:AuthnResponse._bearer_confirmed',
    ],
    'level': 'proof',
}
