PROP = {
 "functions": [
  "saml2_tophat.sigver:RSACrypto.get_signer",
  "saml2_tophat.sigver:RSASigner.sign",
  "saml2_tophat.sigver:RSASigner.verify",
  "saml2_tophat.sigver:verify_redirect_signature",
  "saml2_tophat.pack:http_redirect_message[SAMLRequest]",
  "saml2_tophat.pack:http_redirect_message[SAMLResponse]",
  "saml2_tophat.entity:Entity.apply_binding[redirect,SAMLRequest]",
  "saml2_tophat.entity:Entity.apply_binding[redirect,SAMLResponse]"
 ],
 "level": "proof",
 "level_text": "get_signer: the returned signer is a fresh object carrying the caller's key and nothing allocated before the call is written (frame obligation) -- so no interleaving of other entities can change the key it signs with; sign/verify use that key; http_redirect_message signs exactly SAMLRequest|SAMLResponse, RelayState?, SigAlg (urlencoded, in that order) with the signer's key; verify_redirect_signature rebuilds the same string from the received parameters and verifies it under the given certificate, and never verifies for a missing / unsupported algorithm. All obligations discharged.",
 "assumptions": [
  "E-RSA",
  "E-URL",
  "E-B64",
  "E-X509"
 ],
 "not_decided": [
  "that the signed string determines message, RelayState and SigAlg injectively (E-URL) and that RSA signatures do not verify under another key / message (E-RSA) are assumptions, not proved",
  "Entity.apply_binding obtaining the signer from its own security backend"
 ],
 "id": "C15"
}
