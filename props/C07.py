PROP = {
 "id": "C07",
 "functions": [
  "saml2_tophat.server:Server.setup_assertion",
  "saml2_tophat.assertion:Policy.get[plain]",
  "saml2_tophat.assertion:Policy.filter",
  "saml2_tophat.assertion:Policy.restrict",
  "saml2_tophat.assertion:Assertion.apply_policy"
 ],
 "bounded": [
  "policy_filter"
 ],
 "level": "other",
 "explanation": "Verified glue of the release policy: Policy.get (the SP's own entry, else \"default\", else the caller's default), Policy.filter and Policy.restrict (whatever is returned is a subset of the identity; names only attributes the applicable attribute restrictions allow, the SP's entity categories entitle it to, and -- when those do not apply -- the SP declared), Assertion.apply_policy (what stays in the Assertion object is exactly what the policy returned, a MissingValue leaves it untouched) and the call-site obligation in Server.setup_assertion that only a policy-filtered Assertion is turned into a SAML assertion (fails on the best-effort path: known finding). The LEAF filters (filter_attribute_value_assertions, filter_on_attributes, post_entity_categories) are ASSUMED relations (SUB / NAMED / ASKED with four stated lemmas about subset and key subset) and are exercised by the bounded stand-in policy_filter, never counted as proved.",
 "not_decided": [
  "the leaf filters' bodies (regex matching over nested dict / list comprehensions: queries unknown in both solvers; draft in contracts/_unproved_filter_contract.txt)",
  "value-level clause 'only values matching a configured pattern' (inside the assumed NAMED / SUB relations)",
  "Policy.get with post_func (entity categories): call through a function-valued parameter with **kwargs, assumed"
 ]
}
