PROP = {
 "id": "C07",
 "functions": [
  "saml2_tophat.server:Server.setup_assertion"
 ],
 "bounded": [
  "policy_filter"
 ],
 "level": "other",
 "explanation": "The clause of the statement that concerns every outcome -- whatever path Server.setup_assertion takes, the attribute set handed to Assertion.construct is the policy-filtered one -- is a precondition obligation at the construct() call site over the ghost FILTERED, which only Assertion.apply_policy's normal return establishes. It fails on the MissingValue + best_effort path (known finding with a native witness). The narrowing functions themselves (filter_attribute_value_assertions, filter_on_attributes, Policy.filter/restrict, apply_policy) are NOT verified deductively in this session (the dict-mutating loops need five quantified invariants whose VC generation did not finish in 15 minutes); apply_policy is an ASSUMED contract and the filters are covered by a BOUNDED native enumeration, labelled bounded.",
 "not_decided": [
  "deductive proofs of filter_attribute_value_assertions, filter_on_attributes, Policy.filter, Policy.restrict, Assertion.apply_policy",
  "entity-category based release (bounded stand-in uses no entity categories)",
  "the two construct() call sites that build keyword arguments with dict comprehensions"
 ]
}
