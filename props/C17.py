PROP = {
 "functions": [
  "saml2_tophat.sigver:CryptoBackendXmlSec1.encrypt_assertion",
  "saml2_tophat.sigver:CryptoBackendXmlSec1.decrypt",
  "saml2_tophat.sigver:SecurityContext.decrypt_keys",
  "saml2_tophat.response:AuthnResponse.decrypt_assertions",
  "saml2_tophat.response:AuthnResponse._assertion",
  "saml2_tophat.response:AuthnResponse.verify",
  "saml2_tophat.sigver:SecurityContext.decrypt",
  "saml2_tophat.response:AuthnResponse.check_subject_confirmation_in_response_to",
  "saml2_tophat.entity:Entity._encrypt_assertion"
 ],
 "bounded": [
  "sig_table",
  "issue_roundtrip",
  "wrap_table"
 ],
 "level": "other",
 "explanation": "SP-side half of C17 under contract: every decrypted assertion that carries a signature has it verified against the decrypted text (decrypt_assertions, loop invariants over both loops); the checks of _assertion (validity window, audience, subject confirmations) are the same code for plain and decrypted assertions and AuthnResponse.verify keeps only assertions that passed them; text no configured key decrypts is returned unchanged by decrypt_keys (so it still holds an EncryptedAssertion and yields no assertion) and encrypt_assertion returns only non-empty tool output, never the clear statement. AuthnResponse.parse_assertion (the two decrypt while-loops) is an ASSUMED contract that verify is checked against. IdP side, one function is under contract: Entity._encrypt_assertion -- when the SP has an encryption certificate (given, or declared in metadata) what it hands back is the non-empty output of the encryption tool, never the response that was passed in; if every certificate fails it raises. (Without any certificate it returns the response unchanged: outside the statement, which speaks of an SP that has a certificate.) The rest of the IdP-side half (no identity data in clear in the emitted bytes, decryptable only with the SP's key) is a statement about what xmlsec1 writes and about Entity._response's string surgery; no contract within reach decides it. BOUNDED (issue_roundtrip, stand-in tool, never counted as proved): for every sign / encrypt / advice / certificate-source combination the text emitted by the real Server.create_authn_response is searched for the subject identifier, attribute names and values of the assertion that was to be encrypted; the intended SP reads it back and an SP configured with another key pair gets no identity from it. wrap_table (bounded, stand-in tool) applies the C01 signature-wrapping rearrangements INSIDE the ciphertext of an encrypted assertion (open, forge, encrypt again for the same key): the SP must treat the decrypted assertion like a plain one and reject every forgery.",
 "not_decided": [
  "AuthnResponse.parse_assertion body (assumed contract)",
  "Entity._response encryption branches (string surgery on serialised XML; outside the verified subset)",
  "confidentiality of the emitted response bytes under the REAL xmlsec1 (issue_roundtrip shows it for a stand-in tool that replaces the node the library's xpath selects)",
  "decryptable with the SP's private key and no other configured key: cryptographic, external tool (the stand-in ties a ciphertext to one certificate)"
 ],
 "id": "C17"
}
