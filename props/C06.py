PROP = {
 "functions": [
  "saml2_tophat.response:StatusResponse.status_ok",
  "saml2_tophat.response:StatusResponse._verify",
  "saml2_tophat.request:Request._verify",
  "saml2_tophat.request:Request.verify",
  "saml2_tophat.response:AuthnResponse.verify"
 ],
 "tables": [
  "table_statuscodes"
 ],
 "level": "proof",
 "id": "C06"
}
