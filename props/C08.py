PROP = {
 "functions": [
  "saml2_tophat.attribute_converter:AttributeConverter.lcd_ava_from"
 ],
 "bounded": [
  "e2e_roundtrip",
  "issue_roundtrip"
 ],
 "level": "other",
 "explanation": "C08 is an end-to-end statement over two configured entities, every signing / encryption combination and every string; only one small piece of it is under a deductive contract (AttributeConverter.lcd_ava_from, the fall-back reader: one value per asserted value, in order, each the asserted text trimmed; name trimmed); for the rest the deciding steps are ElementTree serialisation and parsing (external, E-ET / E-PARSE), the external signing tool, and reflection-driven attribute conversion. What this check offers beyond that is BOUNDED native round trips only, labelled as such and never counted as proved: (1) an IdP and an SP built from each other's generated metadata exchange UNSIGNED, UNENCRYPTED HTTP-POST responses for a grid of hostile identities, NameID formats, authentication contexts and lifetimes; acceptance, subject, attributes (after mapping and trimming), InResponseTo, issuer, context and session expiry are compared with what was asserted, and an independent XML parser checks that values did not change the message structure. The serialisation half is additionally covered by C12's round trip of every schema class. (2) issue_roundtrip: every sign_response x sign_assertion x encrypt_assertion x advice mode x self-contained x certificate-source combination is built by the real Server.create_authn_response and read by the real SP, with a STAND-IN for the xmlsec1 executable (bounded/xmlsec1_standin.py, run as a child process by the unmodified backend): not cryptography, but its signatures digest the referenced element including nested signatures, so a wrong signing order or a signature over the wrong element makes the SP reject.",
 "not_decided": [
  "every sign_response x sign_assertion x encrypt_assertion combination with the REAL xmlsec1 and every digest / signature algorithm (not installed; issue_roundtrip uses a stand-in tool)",
  "Redirect / SOAP bindings of the response (C14 covers the encoders)",
  "the for-all-strings claim about values (E-ET: xml.etree escapes text and attribute values)",
  "AttributeConverter.ava_from / fro / to_ (draft contract kept in contracts/_unproved_ava_from_contract.txt: not discharged within budget)",
  "observation (not judged): encrypt_assertion for an SP without any certificate sends the assertion neither encrypted nor signed even when sign_assertion is set (not a supported combination)"
 ],
 "id": "C08",
 "assumptions": []
}
