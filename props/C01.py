PROP = {
 "functions": [
  "saml2_tophat.sigver:parse_xmlsec_output",
  "saml2_tophat.sigver:CryptoBackendXmlSec1._run_xmlsec",
  "saml2_tophat.sigver:CryptoBackendXmlSec1.validate_signature",
  "saml2_tophat.sigver:SecurityContext.verify_signature",
  "saml2_tophat.sigver:SecurityContext._check_signature",
  "saml2_tophat.sigver:SecurityContext.check_signature",
  "saml2_tophat.sigver:SecurityContext.correctly_signed_response",
  "saml2_tophat.sigver:SecurityContext.correctly_signed_message[assertion]",
  "saml2_tophat.response:StatusResponse._loads",
  "saml2_tophat.response:AuthnResponse.loads",
  "saml2_tophat.response:AuthnResponse._assertion",
  "saml2_tophat.response:AuthnResponse.decrypt_assertions",
  "saml2_tophat.sigver:SecurityContext.correctly_signed_message[artifact_response]",
  "saml2_tophat.sigver:SecurityContext.correctly_signed_message[assertion_id_request]",
  "saml2_tophat.sigver:SecurityContext.correctly_signed_message[attribute_query]",
  "saml2_tophat.sigver:SecurityContext.correctly_signed_message[authn_query]",
  "saml2_tophat.sigver:SecurityContext.correctly_signed_message[authn_request]",
  "saml2_tophat.sigver:SecurityContext.correctly_signed_message[authz_decision_query]",
  "saml2_tophat.sigver:SecurityContext.correctly_signed_message[logout_request]",
  "saml2_tophat.sigver:SecurityContext.correctly_signed_message[logout_response]",
  "saml2_tophat.sigver:SecurityContext.correctly_signed_message[manage_name_id_request]",
  "saml2_tophat.sigver:SecurityContext.correctly_signed_message[manage_name_id_response]",
  "saml2_tophat.sigver:SecurityContext.correctly_signed_message[name_id_mapping_request]",
  "saml2_tophat.sigver:SecurityContext.correctly_signed_message[name_id_mapping_response]"
 ],
 "bounded": [
  "sig_table"
 ],
 "level": "other",
 "explanation": "Contract-level part of C01: at every acceptance site a relied-upon element's signature is verified by the tool for that element's own ID (XS_OK over --node-id) under an issuer key; the tool's argv is pinned by the E-XMLSEC axiom. The structural own-signature atom A4 (single Reference naming the element's ID) is a named obligation that fails on this tree (known finding); atoms A2/A3/A5/A6 are document-level facts no Python code establishes and are not decided.",
 "not_decided": [
  "A2 exactly one direct ds:Signature child",
  "A3 it is the first ds:Signature in document order under the element",
  "A5 ID unique in the document",
  "A6 transforms restricted",
  "content of what XS_OK means for the real xmlsec1 (E-XMLSEC is an assumption)"
 ],
 "id": "C01"
}
