PROP = {
 "functions": [
  "saml2_tophat.sigver:parse_xmlsec_output",
  "saml2_tophat.sigver:CryptoBackendXmlSec1._run_xmlsec",
  "saml2_tophat.sigver:CryptoBackendXmlSec1.validate_signature",
  "saml2_tophat.sigver:SecurityContext.verify_signature",
  "saml2_tophat.sigver:SecurityContext._check_signature",
  "saml2_tophat.sigver:SecurityContext.check_signature",
  "saml2_tophat.sigver:SecurityContext.correctly_signed_response",
  "saml2_tophat.sigver:SecurityContext.correctly_signed_message[assertion]",
  "saml2_tophat.response:StatusResponse._loads",
  "saml2_tophat.response:AuthnResponse.loads",
  "saml2_tophat.response:AuthnResponse._assertion",
  "saml2_tophat.response:AuthnResponse.decrypt_assertions",
  "saml2_tophat.sigver:SecurityContext.correctly_signed_message[artifact_response]",
  "saml2_tophat.sigver:SecurityContext.correctly_signed_message[assertion_id_request]",
  "saml2_tophat.sigver:SecurityContext.correctly_signed_message[attribute_query]",
  "saml2_tophat.sigver:SecurityContext.correctly_signed_message[authn_query]",
  "saml2_tophat.sigver:SecurityContext.correctly_signed_message[authn_request]",
  "saml2_tophat.sigver:SecurityContext.correctly_signed_message[authz_decision_query]",
  "saml2_tophat.sigver:SecurityContext.correctly_signed_message[logout_request]",
  "saml2_tophat.sigver:SecurityContext.correctly_signed_message[logout_response]",
  "saml2_tophat.sigver:SecurityContext.correctly_signed_message[manage_name_id_request]",
  "saml2_tophat.sigver:SecurityContext.correctly_signed_message[manage_name_id_response]",
  "saml2_tophat.sigver:SecurityContext.correctly_signed_message[name_id_mapping_request]",
  "saml2_tophat.sigver:SecurityContext.correctly_signed_message[name_id_mapping_response]"
 ],
 "bounded": [
  "sig_table",
  "wrap_table"
 ],
 "level": "other",
 "explanation": "Contract-level part of C01: at every acceptance site a relied-upon element's signature is verified by the tool for that element's own ID (XS_OK over --node-id) under an issuer key; the tool's argv is pinned by the E-XMLSEC axiom. Atom A4 (the element's Signature has a single Reference and it names the element's own ID) is a discharged postcondition of _check_signature since fix 3c3a4c39 and is carried (REF_OK) by check_signature, correctly_signed_response, the 13 correctly_signed_message variants and AuthnResponse._assertion. Atoms A2 / A3 / A5 (exactly one element has the ID, it has exactly one ds:Signature child, and that child is the first ds:Signature the tool meets under the element) are facts about the document handed to the tool: since fix 808af441 _check_signature establishes them by calling signature_is_enveloped on that very document, which is a discharged postcondition (ENVELOPED) carried by the same callers; the helper itself (an ElementTree walk) has an ASSUMED contract, cross-checked on every run by the BOUNDED wrap_table against an independent implementation. wrap_table (bounded, stand-in tool, never counted as proved) also feeds 71 kinds of signature-wrapping rearrangements of validly signed responses to the real SP entry point under every signature-requirement setting: whatever is accepted must carry the genuine identity.",
 "not_decided": [
  "A6 transforms restricted (left to the tool: --enabled-reference-uris empty,same-doc is pinned in the argv, the transform list is not inspected)",
  "signature_is_enveloped body (assumed contract + bounded cross-check)",
  "content of what XS_OK means for the real xmlsec1 (E-XMLSEC is an assumption; the stand-in implements first-signature search and reference-driven digesting)",
  "encrypted assertions in the wrapping table (wrap_table rearranges plain assertions; sig_table covers the signature states of encrypted ones)"
 ],
 "id": "C01"
}
