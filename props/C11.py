PROP = {
 "functions": [],
 "tables": [
  "table_xml_callsites"
 ],
 "bounded": [
  "hostile_xml"
 ],
 "level": "other",
 "explanation": "No function is under a behavioural contract for C11: the property reduces to the external parser (E-DEFUSED) and the parsing assumptions (E-PARSE). What is decided for every input is the syntactic call-site obligation: every call in the package that can parse XML resolves to the hardened parser (an exhaustive inventory rebuilt from the working tree on every run). The behaviour of the hardened parser and of the entry points on malformed or truncated input is only exercised by the bounded hostile-document sweep (labelled bounded, never counted as proved).",
 "level_text": "syntactic call-site obligation over the whole package: every call that can parse XML resolves to the hardened parser (defusedxml); inventory rebuilt from the working tree on every run. The behaviour of the hardened parser itself is assumed (E-DEFUSED) and only validated by the bounded hostile-document sweep.",
 "assumptions": [
  "E-DEFUSED"
 ],
 "not_decided": [
  "posts of the public parse entries as deductive obligations (they reduce to E-DEFUSED and E-PARSE); covered only by the bounded sweep"
 ],
 "id": "C11"
}
