PROP = {
 "functions": [
  "saml2_tophat:create_class_from_xml_string",
  "saml2_tophat:extension_element_from_string",
  "saml2_tophat.soap:parse_soap_enveloped_saml_thingy"
 ],
 "tables": [
  "table_xml_callsites"
 ],
 "bounded": [
  "hostile_xml"
 ],
 "level": "other",
 "explanation": "Three entry points are under a behavioural contract (every schema *_from_string function goes through create_class_from_xml_string): an object or an extracted SOAP body is only ever produced from an element tree that the HARDENED parser accepted for the very text that was received; the standard-library parser has a contract without that guarantee, so a fall-back to it fails the postcondition. What the hardened parser guarantees (no entity declared, nothing external read, well-formed to the end) is E-DEFUSED. In addition every call in the package that can parse XML is shown to resolve to the hardened parser (exhaustive syntactic inventory rebuilt from the working tree), and the bounded hostile-document sweep exercises E-DEFUSED and the remaining entry points natively (labelled bounded, never counted as proved).",
 "level_text": "syntactic call-site obligation over the whole package: every call that can parse XML resolves to the hardened parser (defusedxml); inventory rebuilt from the working tree on every run. The behaviour of the hardened parser itself is assumed (E-DEFUSED) and only validated by the bounded hostile-document sweep.",
 "assumptions": [
  "E-DEFUSED"
 ],
 "not_decided": [
  "the hardened parser's own behaviour (E-DEFUSED) -- only exercised by the bounded sweep",
  "open_soap_envelope / class_instances_from_soap_enveloped_saml_thingies / metadata loaders as deductive obligations (covered by the inventory and the sweep)"
 ],
 "id": "C11"
}
