PROP = {
 "functions": [],
 "tables": [
  "table_xml_callsites"
 ],
 "bounded": [
  "hostile_xml"
 ],
 "level": "proof",
 "level_text": "syntactic call-site obligation over the whole package: every call that can parse XML resolves to the hardened parser (defusedxml); inventory rebuilt from the working tree on every run. The behaviour of the hardened parser itself is assumed (E-DEFUSED) and only validated by the bounded hostile-document sweep.",
 "assumptions": [
  "E-DEFUSED"
 ],
 "not_decided": [
  "posts of the public parse entries as deductive obligations (they reduce to E-DEFUSED and E-PARSE); covered only by the bounded sweep"
 ],
 "id": "C11"
}
