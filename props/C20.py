PROP = {
 "functions": [
  "saml2_tophat.sigver:parse_xmlsec_output",
  "saml2_tophat.sigver:CryptoBackendXmlSec1._run_xmlsec",
  "saml2_tophat.sigver:CryptoBackendXmlSec1.validate_signature",
  "saml2_tophat.sigver:SecurityContext.verify_signature",
  "saml2_tophat.sigver:SecurityContext._check_signature",
  "saml2_tophat.sigver:CryptoBackendXmlSec1.encrypt_assertion",
  "saml2_tophat.sigver:CryptoBackendXmlSec1.sign_statement",
  "saml2_tophat.sigver:SecurityContext.decrypt_keys",
  "saml2_tophat.response:StatusResponse._loads",
  "saml2_tophat.sigver:SecurityContext.correctly_signed_response",
  "saml2_tophat.sigver:SecurityContext.check_signature",
  "saml2_tophat.response:AuthnResponse._assertion",
  "saml2_tophat.sigver:SecurityContext.decrypt"
 ],
 "level": "proof",
 "id": "C20"
}
