PROP = {
 "functions": [
  "saml2_tophat.sigver:parse_xmlsec_output",
  "saml2_tophat.sigver:CryptoBackendXmlSec1._run_xmlsec",
  "saml2_tophat.sigver:CryptoBackendXmlSec1.validate_signature",
  "saml2_tophat.sigver:SecurityContext.verify_signature",
  "saml2_tophat.sigver:SecurityContext._check_signature",
  "saml2_tophat.sigver:CryptoBackendXmlSec1.encrypt_assertion",
  "saml2_tophat.sigver:CryptoBackendXmlSec1.sign_statement",
  "saml2_tophat.sigver:SecurityContext.decrypt_keys",
  "saml2_tophat.response:StatusResponse._loads",
  "saml2_tophat.sigver:SecurityContext.correctly_signed_response",
  "saml2_tophat.sigver:SecurityContext.check_signature",
  "saml2_tophat.response:AuthnResponse._assertion",
  "saml2_tophat.sigver:SecurityContext.decrypt"
 ],
 "level": "proof",
 "id": "C20",
 "bounded": [
  "tool_failure"
 ],
 "level_text": "Every proof obligation generated from the current source of the functions under contract is discharged: with the tool's return code, stdout, stderr and output file arbitrary (E-PROC), a verification that did not end in a line OK on stderr raises, a killed tool raises, a decryption without result yields the unchanged text, signing / encryption without result raises. BOUNDED companion (tool_failure, stand-in tool, never counted as proved; it stands in for no clause above): six failure modes of the tool (error exit, death by signal, silent exit 0 without result, garbage output, truncated output, an error message that merely contains the word OK) are injected at the first use of --verify / --decrypt on one SP object, of the verification of a signed AuthnRequest and of --sign / --encrypt on one IdP object and again after one or two successful uses, to expose state that survives between calls (a reused output file, a cached verdict), which a contract on a single call cannot see."
}
