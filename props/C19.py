PROP = {
 "id": "C19",
 "functions": [
  "saml2_tophat.cache:Cache.get",
  "saml2_tophat.cache:Cache.active",
  "saml2_tophat.cache:Cache.delete",
  "saml2_tophat.cache:Cache.set",
  "saml2_tophat.cache:Cache.reset",
  "saml2_tophat.time_util:before",
  "saml2_tophat.time_util:after",
  "saml2_tophat.population:Population.get_info_from",
  "saml2_tophat.population:Population.remove_person",
  "saml2_tophat.cache:Cache.entities",
  "saml2_tophat.population:Population.issuers_of_info",
  "saml2_tophat.population:Population.sources",
  "saml2_tophat.population:Population.stale_sources_for_person",
  "saml2_tophat.cache:Cache.receivers",
  "saml2_tophat.population:Population.get_entityid",
  "saml2_tophat.population:Population.add_information_about_person[typed-store]",
  "saml2_tophat.cache:Cache.subjects"
 ],
 "bounded": [
  "cache_history"
 ],
 "level": "other",
 "explanation": "Deductive part (dict model of the store): Cache.set stores under exactly code(name_id) / entity_id with the given expiry and touches no other subject and no other source of the subject; Cache.get returns a copy of exactly that entry, raises ToOld exactly when expiry checking is on and the expiry is 0 or has passed; Cache.active, Cache.delete (everything about the subject, nothing else), Cache.reset; time_util.before/after against the clock ghost. Population.get_info_from and Population.remove_person (the wrappers the client calls on login / logout) carry the same clauses, checked against the Cache contracts. Cache.entities and its wrappers Population.issuers_of_info / sources return exactly the sources stored for the subject (one entry each); Population.stale_sources_for_person reports only sources that were asked about or that the cache holds for this subject (which of them -- those not active -- is decided inside a filtering comprehension the engine over-approximates). Cache.receivers (the IdP-side name of entities) carries the entities clause; Population.get_entityid reads an identifier only out of the entry of exactly the asked subject and source, answers the empty string for an unknown one and never reads an expired entry when checking is on. Population.add_information_about_person (variant [typed-store]: under the store's object invariant and a session dict holding a NameID, a string issuer and an expiry) stores the session under exactly its subject and issuer with its expiry and touches no other subject; for that Cache.set additionally guarantees that a first-seen subject gets a fresh mapping. Cache.subjects returns one fresh identifier per stored subject. Cache.get_identity (union over sources via set/list conversions) and the shelve-backed variant are NOT verified deductively: BOUNDED exhaustive operation histories against a reference model under a frozen clock, labelled bounded. Distinct subjects have distinct keys by the C18 encoding (assumed here).",
 "assumptions": [
  "E-SHELVE",
  "E-CLOCK"
 ],
 "not_decided": [
  "Cache.get_identity as deductive obligations (items() of a symbolic dict, set values: outside the engine's subset); which sources stale_sources_for_person reports (filter over-approximated)",
  "observation: for expiry 0 with non-empty data active() answers True while get() raises ToOld (0 means \"no limit\" for one and \"already expired\" for the other); the statement does not fix the meaning of 0",
  "Population.add_information_about_person: verified as the variant [typed-store] (stored for the subject of the session, under its issuer, with the session's expiry; other subjects untouched; only the store's dicts written); that the caller's own session_info dict is untouched is NOT stated (unknown in both solvers); callers verified for C02 still use the weaker assumed contract",
  "Cache.subjects: only \"one fresh identifier per stored subject\" is discharged; WHICH identifier (decode of the key) rests on the assumed ident.decode contract and the bounded ident_history / cache_history"
 ]
}
